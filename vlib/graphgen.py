"""Segment-topology generator (JSON specs), builder to the real graph API and a direct task-graph evaluator.

Spec::

  {'nodes': [{'szin', 'szout', 'group', 'stateful'}...]   # index 0 is the head; group = index of the group's first node
   'edges': [[src, outport, dst, inport]...]              # apply-mode subscriptions
   'trainers': [{'group', 'train': [n, p], 'label': [n, p]}...]
   'tail': index | None (auto-traced),
   'assets': None | {'listed': [group | 'x<k>' (foreign gid)], 'prev': bool}}
"""
import itertools
import typing
import uuid

from forml import flow
from forml.flow._graph import port as gport

from . import symbolic
from .symbolic import NONE, Term


# ------------------------------------------------------------------------------------------------ generation
def generate(rng, maxnodes: int = 10, bias: typing.Optional[str] = None) -> dict:
    """Random valid segment spec."""
    n = rng.randint(1, maxnodes)
    nodes: list[dict] = []
    edges: list[list[int]] = []
    ports: list[tuple[int, int]] = []  # available (node, outport)
    for k in range(n):
        fork_of = None
        if k > 0 and nodes and rng.random() < (0.45 if bias == 'forks' else 0.25):
            cands = [i for i, m in enumerate(nodes) if i > 0 and m['group'] == i]  # group leaders (not the head)
            if cands:
                fork_of = rng.choice(cands)
        if k == 0:
            node = {'szin': rng.choice([0, 0, 1]), 'szout': rng.choice([1, 1, 2, 3]), 'group': 0, 'stateful': False}
        elif fork_of is not None:
            lead = nodes[fork_of]
            node = {'szin': lead['szin'], 'szout': lead['szout'], 'group': fork_of, 'stateful': lead['stateful']}
        else:
            szin = rng.choice([1, 1, 1, 2, 2, 3])
            szout = rng.choice([0, 1, 1, 1, 2, 3] if k == n - 1 else [1, 1, 1, 2, 3, 0])
            node = {'szin': szin, 'szout': szout, 'group': k, 'stateful': rng.random() < 0.6}
        if k > 0:
            if not ports:  # nothing to subscribe to (all previous are sinks) - stop growing
                break
            for i in range(node['szin']):
                src, outport = rng.choice(ports)
                edges.append([src, outport, k, i])
        nodes.append(node)
        ports.extend((k, o) for o in range(node['szout']))
    n = len(nodes)
    succ: dict[int, set[int]] = {i: set() for i in range(n)}
    for src, _, dst, _ in edges:
        succ[src].add(dst)
    trainers = []
    # dependency graph incl. state edges: trainer ids are ('t', group)
    dep: dict[typing.Any, set] = {i: set(s) for i, s in succ.items()}

    def reach(start) -> set:
        seen, stack = set(), list(start)
        while stack:
            x = stack.pop()
            if x in seen:
                continue
            seen.add(x)
            stack.extend(dep.get(x, ()))
        return seen

    groups = sorted({m['group'] for m in nodes if m['stateful']})
    rng.shuffle(groups)
    for g in groups:
        if rng.random() < (0.8 if bias in ('forks', 'train') else 0.55):
            members = [i for i, m in enumerate(nodes) if m['group'] == g]
            tainted = reach(members)
            cands = [(s, o) for s, o in ports if s not in tainted]
            if not cands:
                continue
            train, label = rng.choice(cands), rng.choice(cands)
            trainers.append({'group': g, 'train': list(train), 'label': list(label)})
            dep[('t', g)] = set(members)
            dep[train[0]].add(('t', g))
            dep[label[0]].add(('t', g))
    # tail: a leaf of the apply graph with szout <= 1 (explicit), or auto if unique
    leaves = [i for i in range(n) if not succ[i]]
    simple = [i for i in leaves if nodes[i]['szout'] <= 1]
    if not simple:
        # add a collector so that a simple tail exists
        k = n
        src, outport = rng.choice(ports)
        nodes.append({'szin': 1, 'szout': 1, 'group': k, 'stateful': False})
        edges.append([src, outport, k, 0])
        succ[src].add(k)
        succ[k] = set()
        leaves = [i for i in range(n + 1) if not succ[i]]
        simple = [k]
    tail = None if len(leaves) == 1 and rng.random() < 0.5 else rng.choice(simple)
    spec = {'nodes': nodes, 'edges': edges, 'trainers': trainers, 'tail': tail, 'assets': None}
    choice = rng.random()
    stateful_groups = sorted({m['group'] for m in nodes if m['stateful']})
    if stateful_groups and choice < 0.65:
        trained = {t['group'] for t in trainers}
        if trained and rng.random() < 0.8:
            # train-mode listing: every listed group must deliver a state => subset of the trained groups
            listed = rng.sample(sorted(trained), rng.randint(1, len(trained)))
        else:
            pool = [g for g in stateful_groups if g not in trained] if trained else stateful_groups
            listed = rng.sample(pool, rng.randint(0, len(pool))) if pool else []
            if not trained:
                for k in range(rng.choice([0, 0, 1, 2])):  # foreign gids (other compositions' actors)
                    listed.insert(rng.randint(0, len(listed)), f'x{k}')
        rng.shuffle(listed)
        spec['assets'] = {'listed': listed, 'prev': rng.random() < 0.7}
    return spec


def single_sink(spec: dict, rng) -> dict:
    """Funnel all apply-mode leaves into one sink (collector workers with up to 3 inputs) and drop trainers/assets
    unless apply-mode persistent: the shape the single-function runner accepts."""
    spec = {'nodes': [dict(m) for m in spec['nodes']], 'edges': [list(e) for e in spec['edges']], 'trainers': [],
            'tail': None, 'assets': spec['assets']}
    for m in spec['nodes']:
        m['szout'] = max(1, m['szout'])  # a pure sink cannot be funnelled
    while True:
        n = len(spec['nodes'])
        fed = {e[0] for e in spec['edges']}
        leaves = [i for i in range(n) if i not in fed]
        if len(leaves) == 1 and spec['nodes'][leaves[0]]['szout'] <= 1:
            spec['tail'] = leaves[0]
            break
        take = leaves[:3]
        k = n
        spec['nodes'].append({'szin': len(take), 'szout': 1, 'group': k, 'stateful': rng.random() < 0.3})
        for i, leaf in enumerate(take):
            spec['edges'].append([leaf, rng.randrange(spec['nodes'][leaf]['szout']), k, i])
    if spec['assets']:
        stateful = sorted({m['group'] for m in spec['nodes'] if m['stateful']})
        listed = [g for g in spec['assets']['listed'] if isinstance(g, str) or g in stateful]
        spec['assets'] = {'listed': listed, 'prev': spec['assets']['prev']}
    return spec


def signature(spec: dict) -> str:
    """Canonical-ish signature for counting distinct shapes (exact structure, names are positional)."""
    return repr((
        [(m['szin'], m['szout'], m['group'], m['stateful']) for m in spec['nodes']],
        sorted(map(tuple, spec['edges'])),
        sorted((t['group'], tuple(t['train']), tuple(t['label'])) for t in spec['trainers']),
        spec['tail'],
        (tuple(spec['assets']['listed']), spec['assets']['prev']) if spec['assets'] else None,
    ))


def nontrivial(spec: dict) -> bool:
    return len(spec['nodes']) >= 3 or bool(spec['trainers'])


# ------------------------------------------------------------------------------------------------ real graph
class Built(typing.NamedTuple):
    nodes: list  # apply-mode workers by spec index
    trainers: dict  # group -> trained worker
    names: dict  # group -> name
    segment: 'flow.Segment'
    gids: dict  # group (or foreign key) -> gid


def build(spec: dict, log: typing.Optional[str] = None, opaque: bool = False) -> Built:
    """Wire the spec through the public graph API.  ``opaque``: the actors get their name through a value all builders
    render alike (equal builder reprs, different content)."""
    names = {}
    nodes: list = []
    shared = {int(k): v for k, v in (spec.get('shared_builder') or {}).items()}
    for i, m in enumerate(spec['nodes']):
        g = m['group']
        if g == i and g in shared:
            # a second worker group created from the very same builder object (an operator instance composed twice, a
            # hand-written operator keeping one builder): same hyper-parameters, own state
            names[g] = names[shared[g]]
            nodes.append(flow.Worker(nodes[shared[g]].builder, m['szin'], m['szout']))
        elif g == i:
            names[g] = f'n{g}'
            given = symbolic.Opaque(names[g]) if opaque else names[g]
            nodes.append(flow.Worker(symbolic.builder(given, m['stateful'], max(1, m['szout']), log, bool(m.get('hollow'))),
                                     m['szin'], m['szout']))
        else:
            nodes.append(nodes[g].fork())
    for src, outport, dst, inport in spec['edges']:
        nodes[dst][inport].subscribe(nodes[src][outport])
    trainers = {}
    for t in spec['trainers']:
        g = t['group']
        trainer = nodes[g].fork()
        trainer.train(nodes[t['train'][0]][t['train'][1]], nodes[t['label'][0]][t['label'][1]])
        trainers[g] = trainer
    tail = nodes[spec['tail']] if spec['tail'] is not None else None
    try:
        segment = flow.Segment(nodes[0], tail)
    except flow.TopologyError as err:
        # auto-tracing reports 'Ambiguous tail' for a unique leaf reached over paths with different node sets; segment
        # *construction* conveniences are not C01's subject (the property starts from a segment) - name the tail.
        if tail is not None or 'Ambiguous tail' not in str(err):
            raise
        leaves = [n for n in nodes if not any(n.output) or not any(any(True for _ in p) for p in n.output)]
        leaves = [n for n in leaves if n.szout <= 1]
        if len(leaves) != 1:
            raise
        segment = flow.Segment(nodes[0], leaves[0])
    gids = {g: nodes[g].gid for g in names}
    return Built(nodes, trainers, names, segment, gids)


# ------------------------------------------------------------------------------------------------ assets double
class Generation:
    """Recording generation double behind a real asset.State."""

    class Release:
        def __init__(self, log):
            self._log = log

        def dump(self, state: bytes) -> uuid.UUID:
            sid = uuid.uuid4()
            self._log.append(('dump', sid, state))
            return sid

        def put(self, tag):
            self._log.append(('put', tuple(tag.states)))
            return 'NEWGEN'

    def __init__(self, prev: bool, size: int):
        from forml.io import asset

        self.log: list = []
        self.release = self.Release(self.log)
        self.prev = prev
        self.size = size
        self.tag = asset.Tag(training=asset.Tag.Training(timestamp=__import__('datetime').datetime(2020, 1, 1)),
                             states=[uuid.uuid4() for _ in range(size)]) if prev else asset.Tag()

    def get(self, key):
        self.log.append(('get', key))
        if not self.prev:
            return b''
        import pickle

        return pickle.dumps(Term('prev', key))


def assets_for(spec: dict, built: Built):
    from forml.io import asset

    listed = []
    for g in spec['assets']['listed']:
        if isinstance(g, str):
            built.gids.setdefault(g, uuid.uuid4())
        listed.append(built.gids[g])
    generation = Generation(spec['assets']['prev'], len(listed))
    return asset.State(generation, listed), generation, listed


# ------------------------------------------------------------------------------------------------ direct evaluator
def members(built: Built) -> list:
    """Nodes of the segment by the documented meaning: everything downstream of the head, not expanding beyond the
    tail except for trainers hanging directly off it."""
    head, tail = built.segment[0], built.segment[1]
    seen, order, stack = set(), [], [head]
    while stack:
        node = stack.pop()
        if id(node) in seen:
            continue
        seen.add(id(node))
        order.append(node)
        for port in node.output:
            for sub in port:
                if node is tail and not sub.node.trained:
                    continue
                stack.append(sub.node)
    return order


def evaluate(built: Built, spec: dict, listed: typing.Optional[list] = None) -> dict:
    """Evaluate the task graph directly on the node objects: {id(node): term}.

    Knows nothing about the compiler: publishers are found by scanning node.output.
    """
    nodes = members(built)
    byid = {id(n): n for n in nodes}
    feeds: dict[tuple[int, typing.Any], tuple] = {}
    for node in nodes:
        for index, port in enumerate(node.output):
            for sub in port:
                if id(sub.node) in byid:
                    key = (id(sub.node), sub.port)
                    assert key not in feeds, 'two publishers on one port'
                    feeds[key] = (node, index)
    listed = listed or []
    prev = bool(spec['assets'] and spec['assets']['prev'])
    values: dict[int, Term] = {}

    def loaded(node) -> Term:
        if node.gid in listed and prev:
            return Term('prev', listed.index(node.gid))
        return NONE

    def port_value(pub, index) -> Term:
        value = node_value(pub)
        return Term('out', index, value) if pub.szout > 1 else value

    def node_value(node) -> Term:
        if id(node) in values:
            return values[id(node)]
        name = node.builder.kwargs['name']
        if node.trained:
            train = port_value(*feeds[(id(node), gport.Train())]) if (id(node), gport.Train()) in feeds else None
            label = port_value(*feeds[(id(node), gport.Label())])
            result = Term('fit', name, loaded(node), train, label)
            if node.builder.actor is symbolic.Hollow:
                result = NONE  # trained, yet the state it hands on (to its forks, to the registry) is empty
        else:
            state = NONE
            if node.stateful:
                trained = [m for m in node.group if m.trained and id(m) in byid]
                if trained:
                    state = node_value(trained[0])
                else:
                    state = loaded(node)
            inputs = []
            for i in range(node.szin):
                if (id(node), gport.Apply(i)) in feeds:
                    inputs.append(port_value(*feeds[(id(node), gport.Apply(i))]))
                elif node is not built.segment[0]:
                    raise LookupError(f'input {i} of {name} not fed inside the segment')
            result = Term('app', name, state, *inputs)
        values[id(node)] = result
        return result

    for node in nodes:
        node_value(node)
    return {'values': values, 'nodes': nodes}


def enumerate_small(maxnodes: int = 3) -> typing.Iterator[dict]:
    """Exhaustive apply-mode skeletons for tiny chains/fans (shapes x wiring), used to complement random generation."""
    shapes = [(1, 1), (1, 2), (2, 1)]
    for n in range(2, maxnodes + 1):
        for combo in itertools.product(shapes, repeat=n - 1):
            nodes = [{'szin': 0, 'szout': 2, 'group': 0, 'stateful': False}]
            ports = [(0, 0), (0, 1)]
            wirings = [[]]
            for k, (szin, szout) in enumerate(combo, start=1):
                nodes.append({'szin': szin, 'szout': szout, 'group': k, 'stateful': True})
                new = []
                for wiring in wirings:
                    for choice in itertools.product(ports, repeat=szin):
                        new.append(wiring + [[s, o, k, i] for i, (s, o) in enumerate(choice)])
                wirings = new
                ports = ports + [(k, o) for o in range(szout)]
            for wiring in wirings:
                succ = {i: set() for i in range(n)}
                for s, _, d, _ in wiring:
                    succ[s].add(d)
                leaves = [i for i in range(n) if not succ[i] and nodes[i]['szout'] <= 1]
                if not leaves:
                    continue
                yield {'nodes': [dict(m) for m in nodes], 'edges': wiring, 'trainers': [], 'tail': leaves[-1], 'assets': None}


# ------------------------------------------------------------------------------------------------ generic evaluator
def segment_members(segment) -> list:
    """Nodes of a segment: everything downstream of its head, not expanding beyond the tail except trainers."""
    head, tail = segment[0], segment[1]
    seen, order, stack = set(), [], [head]
    while stack:
        node = stack.pop()
        if id(node) in seen:
            continue
        seen.add(id(node))
        order.append(node)
        for port in node.output:
            for sub in port:
                if node is tail and not (isinstance(sub.node, flow.Worker) and sub.node.trained):
                    continue
                stack.append(sub.node)
    return order


def evaluate_segment(segment, loaded=None, entry=None) -> dict:
    """Direct evaluation of a segment by running the *actors themselves* on the node objects (no compiler involved).

    loaded(node) -> state bytes for stateful nodes that have no trainer inside this segment (None/b'' = no state);
    for trainers it provides the previous state (incremental training).  Returns
    {'value': {id(node): result}, 'state': {gid: bytes}, 'nodes': [...], 'tail': result of the tail node}.
    """
    nodes = segment_members(segment)
    byid = {id(n): n for n in nodes}
    feeds: dict = {}
    for node in nodes:
        for index, port in enumerate(node.output):
            for sub in port:
                if id(sub.node) in byid:
                    key = (id(sub.node), sub.port)
                    if key in feeds:
                        raise AssertionError('two publishers on one port')
                    feeds[key] = (node, index)
    values: dict = {}
    states: dict = {}
    active: set = set()

    def port_value(pub, index):
        result = node_value(pub)
        return result[index] if pub.szout > 1 else result

    def node_value(node):
        if id(node) in values:
            return values[id(node)]
        if id(node) in active:
            raise RecursionError('cyclic dataflow')
        active.add(id(node))
        actor = node.builder()
        if node.trained:
            previous = loaded(node) if loaded else None
            if previous:
                actor.set_state(previous)
            actor.train(port_value(*feeds[(id(node), gport.Train())]), port_value(*feeds[(id(node), gport.Label())]))
            result = actor.get_state()
            states[node.gid] = result
        else:
            if node.stateful:
                trained = [m for m in node.group if m.trained and id(m) in byid]
                state = node_value(trained[0]) if trained else (loaded(node) if loaded else None)
                if state:
                    actor.set_state(state)
            inputs = []
            for i in range(node.szin):
                if (id(node), gport.Apply(i)) in feeds:
                    inputs.append(port_value(*feeds[(id(node), gport.Apply(i))]))
                elif node is segment[0]:
                    if entry is not None:
                        inputs.append(entry)
                else:
                    raise LookupError(f'input {i} of {node} not fed inside the segment')
            result = actor.apply(*inputs)
        active.discard(id(node))
        values[id(node)] = result
        return result

    for node in nodes:
        if isinstance(node, flow.Worker):
            node_value(node)
    return {'value': values, 'state': states, 'nodes': nodes, 'tail': values.get(id(segment[1]))}
