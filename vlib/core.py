"""Run context shared by all checks: seeding, counters, distinct-shape accounting, violations with mechanism
keys, known-finding classification, three-valued verdicts, evidence and replay files.

A check module (``checks/cNN.py``) provides::

    PROPERTY = 'C07'; LEVEL = 'exploration'; RULE = '...'; ASSUMPTIONS = [...]
    def shards(tier) -> int                 # number of child processes the workload is split into
    def run(ctx) -> None                    # the part of the workload of shard ctx.shard / ctx.nshards
    def floors(tier) -> {counter: minimum}  # observation floors; below => inconclusive
    def replay(ctx, witness) -> None        # optional: re-run exactly one recorded case

Every shard is a fresh python process with its own PYTHONHASHSEED (hash order is part of the configuration
space); the parent merges what the shards observed and decides the verdict.
"""
import hashlib
import json
import os
import random
import sys
import time
import traceback
import typing

VERIF = os.path.dirname(os.path.dirname(os.path.abspath(__file__)))
REPO = os.environ.get('VERIF_REPO', '/repo')
PYTHON = '/venv/bin/python'
SAMPLE_CAP = 6


def digest(obj: typing.Any, size: int = 16) -> str:
    """Stable digest of any JSON-able / repr-able object."""
    if not isinstance(obj, (str, bytes)):
        try:
            obj = json.dumps(obj, sort_keys=True, default=repr)
        except (TypeError, ValueError):
            obj = repr(obj)
    if isinstance(obj, str):
        obj = obj.encode()
    return hashlib.sha1(obj).hexdigest()[:size]


def subseed(*parts: typing.Any) -> int:
    """Derive a deterministic 48-bit seed from the given parts."""
    return int(digest(list(map(str, parts)), 12), 16)


class Inconclusive(Exception):
    """Raised by a check when the monitor could not observe what it needs."""


class Ctx:
    """Shard-side recording context."""

    def __init__(self, pid: str, tier: str, seed: int, shard: int = 0, nshards: int = 1):
        self.pid = pid
        self.tier = tier
        self.seed = seed
        self.shard = shard
        self.nshards = nshards
        self.hashseed = os.environ.get('PYTHONHASHSEED', 'random')
        self.counters: dict[str, int] = {}
        self.shapes: set[str] = set()
        self.samples: list[typing.Any] = []
        self.violations: list[dict] = []
        self.inconclusives: list[str] = []
        self.notes: dict[str, typing.Any] = {}
        self._vkeys: dict[str, int] = {}
        self.t0 = time.time()

    @property
    def quick(self) -> bool:
        return self.tier == 'quick'

    def pick(self, quick: typing.Any, thorough: typing.Any) -> typing.Any:
        """Tier-dependent budget."""
        return quick if self.quick else thorough

    def rng(self, *name: typing.Any) -> random.Random:
        """Deterministic generator for the named purpose (independent of the shard layout unless asked for)."""
        return random.Random(subseed(self.seed, self.pid, *name))

    def mine(self, index: int) -> bool:
        """Whether the case with the given global index belongs to this shard."""
        return index % self.nshards == self.shard

    def count(self, name: str, n: int = 1) -> None:
        self.counters[name] = self.counters.get(name, 0) + n

    def shape(self, sig: typing.Any) -> None:
        """Register the canonical signature of a non-trivial case (distinct ones are counted)."""
        self.shapes.add(digest(sig, 14))

    def sample(self, obj: typing.Any, cap: int = SAMPLE_CAP) -> None:
        if len(self.samples) < cap:
            self.samples.append(obj)

    def note_max(self, name: str, value: float) -> None:
        self.notes[name] = max(self.notes.get(name, value), value)

    def note_set(self, name: str, value: typing.Any, cap: int = 64) -> None:
        bag = self.notes.setdefault(name, [])
        if value not in bag and len(bag) < cap:
            bag.append(value)

    def violation(self, key: str, what: str, witness: typing.Any, cap: int = 8) -> None:
        """Record a violation classified by the mechanism ``key`` (at most ``cap`` witnesses per key are kept)."""
        self.count('violations_raw')
        seen = self._vkeys.get(key, 0)
        self._vkeys[key] = seen + 1
        if seen < cap:
            self.violations.append(
                {'key': key, 'what': what, 'witness': witness, 'hashseed': self.hashseed, 'shard': self.shard}
            )

    def inconclusive(self, reason: str) -> None:
        if len(self.inconclusives) < 20:
            self.inconclusives.append(reason)

    def dump(self) -> dict:
        return {
            'counters': self.counters,
            'shapes': sorted(self.shapes),
            'samples': self.samples,
            'violations': self.violations,
            'vkeys': self._vkeys,
            'inconclusives': self.inconclusives,
            'notes': self.notes,
            'wall_s': time.time() - self.t0,
        }


def jsonable(obj: typing.Any) -> typing.Any:
    """Best-effort conversion to something json can write."""
    try:
        json.dumps(obj)
        return obj
    except (TypeError, ValueError):
        pass
    if isinstance(obj, dict):
        return {str(k): jsonable(v) for k, v in obj.items()}
    if isinstance(obj, (list, tuple, set, frozenset)):
        return [jsonable(v) for v in obj]
    return repr(obj)


def guarded(ctx: Ctx, fn: typing.Callable, *args, **kwargs):
    """Call fn; any exception escaping a check's own code (not forml's) is an harness error => inconclusive."""
    try:
        return fn(*args, **kwargs)
    except Inconclusive as err:
        ctx.inconclusive(str(err))
    except Exception:  # pylint: disable=broad-except
        ctx.inconclusive('harness error: ' + traceback.format_exc()[-1500:])
    return None


def load_known() -> list[dict]:
    """Committed known findings: known_findings.json plus (while checks are being authored) known_findings.d/*.json."""
    import glob

    found = []
    for path in [os.path.join(VERIF, 'known_findings.json')] + sorted(glob.glob(os.path.join(VERIF, 'known_findings.d', '*.json'))):
        if os.path.exists(path):
            with open(path, encoding='utf-8') as fd:
                found.extend(json.load(fd)['findings'])
    return found


def quiet_stderr() -> None:
    """forml import prints deprecation noise - keep stderr readable."""
    import warnings

    warnings.filterwarnings('ignore')
    os.environ.setdefault('PYTHONWARNINGS', 'ignore')
    if not os.environ.get('VERIF_DEBUG'):
        import logging

        logging.disable(logging.CRITICAL)
