"""Generated serving projects for C16: concrete (string-provenance) actors, feed, project packages, applications.

Every served row is ``[rid, tag]``; every actor rewrites the tag to ``name[state](tag)`` and keeps the rid, so a
response names the request it belongs to and the model state (training nonce = generation) that produced it.
"""
import hashlib
import os
import time
import typing

from forml import flow, io
from forml.io import dsl, layout


class Req(dsl.Schema):
    """Served / trained table."""

    rid = dsl.Field(dsl.Integer())
    tag = dsl.Field(dsl.String())
    lab = dsl.Field(dsl.String())


def delay_of(rid: int, salt: str, scale_ms: float) -> float:
    """Seeded per-request processing delay in seconds."""
    if scale_ms <= 0:
        return 0.0
    digest = hashlib.sha1(f'{salt}:{rid}'.encode()).digest()
    return (digest[0] % 8) * scale_ms / 1000.0


class Tagger(flow.Actor):
    """Stateful actor: state = ``name@<tag of first training row>``; apply rewrites tags, sleeping a seeded delay."""

    def __init__(self, name: str, salt: str = '', scale_ms: float = 0.0):
        self.name = name
        self.salt = salt
        self.scale_ms = scale_ms
        self.state: typing.Optional[str] = None

    def train(self, features, labels, /):
        self.state = f'{self.name}@{list(next(iter(features)))[1]}'

    def apply(self, rows):
        out = []
        for row in rows:
            rid, tag = list(row)[:2]
            pause = delay_of(int(rid), self.salt, self.scale_ms)
            if pause:
                time.sleep(pause)
            out.append([int(rid), f'{self.name}[{self.state}]({tag})'])
        return out

    def get_state(self) -> bytes:
        return (self.state or '').encode()

    def set_state(self, state: bytes) -> None:
        if state:
            self.state = state.decode()

    def get_params(self):
        return {'name': self.name, 'salt': self.salt, 'scale_ms': self.scale_ms}

    def set_params(self, **params):
        for key, value in params.items():
            setattr(self, key, value)


class Marker(flow.Actor):
    """Stateless ``tag -> name(tag)``."""

    def __init__(self, name: str):
        self.name = name

    def apply(self, rows):
        return [[int(list(r)[0]), f'{self.name}({list(r)[1]})'] for r in rows]

    def get_params(self):
        return {'name': self.name}

    def set_params(self, **params):
        self.name = params.get('name', self.name)


class Merger(Marker):
    """Stateless 2:1 ``(a, b) -> name(a|b)`` pairing the rows of both branches by position."""

    def apply(self, first, second):  # pylint: disable=arguments-differ
        return [[int(list(a)[0]), f'{self.name}({list(a)[1]}|{list(b)[1]})'] for a, b in zip(first, second)]


class Unequal(flow.Operator):
    """``x -> merge(short(x), deep2(deep1(x)))`` in both modes: one node feeding two branches of unequal depth, the shallow
    one being the merger's first argument (a serving runner evaluates that consumer before the producer of the other)."""

    def __init__(self, name: str):
        self._name = name

    def compose(self, scope):
        left = scope.expand()
        name = self._name
        tails = []
        for publisher in (left.apply.publisher, left.train.publisher):
            short = flow.Worker(Marker.builder(name=f'{name}s'), 1, 1)
            deep1 = flow.Worker(Marker.builder(name=f'{name}a'), 1, 1)
            deep2 = flow.Worker(Marker.builder(name=f'{name}b'), 1, 1)
            merge = flow.Worker(Merger.builder(name=f'{name}m'), 2, 1)
            head = flow.Future()
            short[0].subscribe(head[0])
            deep1[0].subscribe(head[0])
            deep2[0].subscribe(deep1[0])
            merge[0].subscribe(short[0])
            merge[1].subscribe(deep2[0])
            tails.append(flow.Segment(head, merge))
        return left.extend(tails[0], tails[1])


def expected_tag(actors: typing.Sequence[str], nonce: str, tag: str) -> str:
    """What a request with the given tag must come back as from a model trained with the given nonce."""
    trained = nonce  # the tag of the first training row as it travels down the train path
    for name in actors:
        if name.startswith('fork:'):
            n = name[5:]
            trained = f'{n}m({n}s({trained})|{n}b({n}a({trained})))'
            tag = f'{n}m({n}s({tag})|{n}b({n}a({tag})))'
            continue
        state = f'{name}@{trained}'
        trained = f'{name}[{state}]({trained})'
        tag = f'{name}[{state}]({tag})'
    return tag


class Reader(io.Feed.Reader):
    """Reader whose served-entry path is the real one; training data is a fixed table tagged with $VERIF_TRAIN_NONCE."""

    def __call__(self, statement, entry=None):
        if entry is not None:
            return super().__call__(statement, entry)
        nonce = os.environ.get('VERIF_TRAIN_NONCE', 'none')
        width = len(statement.schema)
        rows = [[1, nonce, 'y'][:width], [2, nonce, 'n'][:width]]
        return layout.Dense.from_rows(rows)

    @classmethod
    def parser(cls, sources, features):
        raise NotImplementedError()

    @classmethod
    def read(cls, statement, **kwargs):
        raise NotImplementedError()


class Feed(io.Feed):
    """Feed advertising the Req table."""

    Reader = Reader

    @property
    def sources(self):
        return {Req: None}


PIPELINE_PY = '''
from forml import project
from forml.pipeline import wrap
from vlib import serving
INSTANCE = None
for _name in {actors!r}:
    if _name.startswith('fork:'):
        _op = serving.Unequal(_name[5:])
    else:
        _op = wrap.Operator.mapper(serving.Tagger, name=_name, salt={salt!r}, scale_ms={scale!r})()
    INSTANCE = _op if INSTANCE is None else INSTANCE >> _op
project.setup(INSTANCE)
'''
SOURCE_PY = '''
from forml import project
from vlib import serving
INSTANCE = project.Source.query(serving.Req.select(serving.Req.rid, serving.Req.tag), serving.Req.lab)
project.setup(INSTANCE)
'''
APP_PY = '''
from forml import application
application.setup(application.Generic({name!r}, application.Explicit({project!r}, {release!r}, {generation!r})))
'''


def write_project(root, name: str, version: str, actors: typing.Sequence[str], salt: str, scale_ms: float):
    from . import projgen

    return projgen.write_package(root, name, version, package=f'vserve_{name}', files={
        'pipeline.py': PIPELINE_PY.format(actors=list(actors), salt=salt, scale=scale_ms),
        'source.py': SOURCE_PY,
    })


def write_application(inventory_dir, name: str, project: str, release: str, generation: int) -> None:
    os.makedirs(inventory_dir, exist_ok=True)
    with open(os.path.join(inventory_dir, f'{name}.py'), 'w', encoding='utf-8') as fd:
        fd.write(APP_PY.format(name=name, project=project, release=release, generation=generation))


def train(registry_dir: str, project: str, release: str, nonce: str) -> None:
    """Train one more generation (in this process) with the given nonce."""
    from forml.io import asset
    from forml.provider.runner import dask as daskrunner
    from forml.provider.sink import null

    from . import projgen

    os.environ['VERIF_TRAIN_NONCE'] = nonce
    projgen.clear_caches()
    instance = asset.Instance(project, release, None, projgen.directory(registry_dir))
    with daskrunner.Runner(instance, Feed(), null.Sink(), scheduler='synchronous') as runner:
        runner.train()
    projgen.clear_caches()


def build_world(workdir: str, config: dict, salt: str) -> None:
    """Registry with projects / generations and an inventory with applications (run in a process of its own: the
    dask runner used for training must not leak its imports - e.g. tblib's exception pickling hooks - into the
    serving process under observation)."""
    from . import projgen

    registry = os.path.join(workdir, 'registry')
    inventory = os.path.join(workdir, 'inventory')
    adir = projgen.directory(registry)
    for p, (project, actors, generations) in enumerate(config['projects']):
        projgen.publish(adir, write_project(workdir, project, '1', actors, salt, config['delay_ms']))
        for g in range(generations):
            train(registry, project, '1', f'{project}g{g + 1}n{salt}')
        for app, generation in config['apps'][p]:
            write_application(inventory, app, project, '1', generation)


if __name__ == '__main__':
    import json
    import sys

    from . import core

    core.quiet_stderr()
    with open(sys.argv[1], encoding='utf-8') as _fd:
        _job = json.load(_fd)
    build_world(_job['workdir'], _job['config'], _job['salt'])
