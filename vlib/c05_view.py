"""C05 helper: what a *fresh reader* sees in a registry, and the raw file tree with content hashes.

``view(registry)`` walks the registry exclusively through the public asset API (``asset.Directory`` ->
``Project.list`` -> ``Release.list`` -> ``Generation.tag`` / ``Generation.get`` and ``Registry.pull`` ->
``Package.manifest``) and returns a JSON-able description of everything that is *listed*; nothing in it is taken from
the file system directly except the ``present`` flag of a state file (needed to tell a missing state from a
legitimately empty one - ``Registry.read`` returns ``b''`` for both) and the package files (hashed from the path
``Registry.pull`` returns).

Run as a module it is the "new process" reader of the thorough tier::

    python -m vlib.c05_view <request.json> <response.json>     # {"roots": [...]} -> {"views": [...], "trees": [...]}
"""
import hashlib
import json
import os
import sys
import zipfile

STAGE = '.stage'
SKIP = {STAGE, '__pycache__'}


def sha(data: bytes) -> str:
    return hashlib.sha256(data).hexdigest()


def file_sha(path) -> str:
    with open(path, 'rb') as fd:
        return sha(fd.read())


def tree(root, stage: bool = False) -> dict:
    """{relative path: sha256 | 'dir'} of everything below root; ``.stage`` directories (and ``__pycache__``) are left out
    unless ``stage`` is set."""
    root = os.fspath(root)
    out = {}
    skip = {'__pycache__'} if stage else SKIP
    for base, dirs, files in os.walk(root):
        dirs[:] = sorted(d for d in dirs if d not in skip)
        rel = os.path.relpath(base, root)
        for name in dirs:
            out[os.path.normpath(os.path.join(rel, name))] = 'dir'
        for name in sorted(files):
            out[os.path.normpath(os.path.join(rel, name))] = file_sha(os.path.join(base, name))
    return out


def package_files(path) -> dict:
    """Content description of a package: every file of a directory package, the archive bytes plus every member of a
    zip package."""
    path = os.fspath(path)
    if os.path.isdir(path):
        return {k: v for k, v in tree(path, stage=True).items() if v != 'dir'}
    out = {'.': file_sha(path)}
    with zipfile.ZipFile(path) as archive:
        for name in sorted(archive.namelist()):
            out['zip:' + name] = sha(archive.read(name))
    return out


def package_view(registry, project, release, volatile: bool = False) -> dict:
    from forml import project as prj

    try:
        if volatile:
            artifact = registry.mount(project, release)
            package = prj.Package(artifact.path)
        else:
            package = registry.pull(project, release)
        manifest = package.manifest
        return {
            'manifest': [str(manifest.name), str(manifest.version), manifest.package, dict(manifest.modules)],
            'kind': 'dir' if package.path.is_dir() else 'zip',
            'files': package_files(package.path),
        }
    except Exception as err:  # pylint: disable=broad-except
        return {'error': f'{type(err).__name__}: {err}'[:300]}


def tag_view(tag) -> dict:
    def stamp(value):
        return value.isoformat() if hasattr(value, 'isoformat') else (None if value is None else repr(value))

    return {
        'training': stamp(tag.training.timestamp),
        'ordinal': None if tag.training.ordinal is None else repr(tag.training.ordinal),
        'tuning': stamp(tag.tuning.timestamp),
        'score': None if tag.tuning.score is None else repr(tag.tuning.score),
        'states': [str(s) for s in tag.states],
    }


def generation_view(registry, generation, project, release, key) -> dict:
    try:
        tag = generation.tag
        out = {'tag': tag_view(tag)}
    except Exception as err:  # pylint: disable=broad-except
        out = {'error': f'{type(err).__name__}: {err}'[:300]}
        try:
            raw = registry._path.tag(project, release, key)  # pylint: disable=protected-access
            out['tagfile_bytes'] = raw.stat().st_size if raw.exists() else None
        except Exception:  # pylint: disable=broad-except
            out['tagfile_bytes'] = 'unknown'
        return out
    states = []
    for index, sid in enumerate(tag.states):
        entry = {'sid': str(sid)}
        try:
            entry['present'] = registry._path.state(sid, project, release, key).exists()  # pylint: disable=protected-access
        except Exception:  # pylint: disable=broad-except
            entry['present'] = None
        try:
            data = generation.get(index)
            entry['sha'] = sha(data)
            entry['len'] = len(data)
        except Exception as err:  # pylint: disable=broad-except
            entry['error'] = f'{type(err).__name__}: {err}'[:300]
        states.append(entry)
    out['states'] = states
    try:
        out['listing'] = [str(s) for s in generation.list()]
    except Exception as err:  # pylint: disable=broad-except
        out['listing'] = f'{type(err).__name__}: {err}'[:300]
    return out


def forget() -> None:
    """Drop every process-level cache between the caller and the registry content - what a new process would not have:
    the three asset caches (TAGS, STATES, ARTIFACTS) and the lru caches of the posix ``Path`` helpers (they are keyed by
    *equal* keys, so a path computed for release ``1.0`` would otherwise also be served for ``1.0.0``)."""
    from forml.provider.registry.filesystem import posix

    from . import projgen

    projgen.clear_caches()
    for name in ('project', 'release', 'generation', 'package', 'state', 'tag'):
        getattr(posix.Path, name).cache_clear()


def view(registry, volatile: bool = False) -> dict:
    """Everything listed in the registry as seen through a new ``asset.Directory`` (process-level caches dropped first;
    for the volatile registry - one process by construction - only the asset caches)."""
    from forml.io import asset

    from . import projgen

    if volatile:
        projgen.clear_caches()
    else:
        forget()
    directory = asset.Directory(registry)
    out = {'projects': {}}
    try:
        projects = list(directory.list())
    except Exception as err:  # pylint: disable=broad-except
        return {'error': f'{type(err).__name__}: {err}'[:300], 'projects': {}}
    for pkey in projects:
        project = directory.get(pkey)
        pout = {'releases': {}}
        out['projects'][str(pkey)] = pout
        try:
            releases = list(project.list())
        except Exception as err:  # pylint: disable=broad-except
            pout['error'] = f'{type(err).__name__}: {err}'[:300]
            continue
        try:
            pout['latest'] = str(project.get().key) if releases else None
        except Exception as err:  # pylint: disable=broad-except
            pout['latest'] = f'!{type(err).__name__}: {err}'[:300]
        for rkey in releases:
            release = project.get(rkey)
            rout = {'package': package_view(registry, pkey, rkey, volatile), 'generations': {}}
            pout['releases'][str(rkey)] = rout
            try:
                generations = list(release.list())
            except Exception as err:  # pylint: disable=broad-except
                rout['error'] = f'{type(err).__name__}: {err}'[:300]
                continue
            try:
                rout['latest'] = int(release.get().key) if generations else None
            except Exception as err:  # pylint: disable=broad-except
                rout['latest'] = f'!{type(err).__name__}: {err}'[:300]
            for gkey in generations:
                rout['generations'][str(int(gkey))] = generation_view(registry, release.get(gkey), pkey, rkey, gkey)
    if volatile:
        projgen.clear_caches()
    else:
        forget()
    return out


def posix_view(root) -> dict:
    """View through a brand-new posix registry object rooted at the given directory."""
    from forml.provider.registry.filesystem import posix

    return view(posix.Registry(str(root)))


def main(argv) -> int:
    import logging
    import warnings

    warnings.filterwarnings('ignore')
    logging.disable(logging.CRITICAL)
    with open(argv[1], encoding='utf-8') as fd:
        request = json.load(fd)
    response = {'views': [posix_view(r) for r in request['roots']], 'trees': [tree(r) for r in request['roots']],
                'pid': os.getpid()}
    with open(argv[2] + '.tmp', 'w', encoding='utf-8') as fd:
        json.dump(response, fd)
    os.replace(argv[2] + '.tmp', argv[2])
    return 0


if __name__ == '__main__':
    sys.exit(main(sys.argv))
