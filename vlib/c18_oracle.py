"""Oracles and case generators for checks/c18.py (standard library only).

* value codec: every primitive value of a case is carried as a JSON-able ``{'k': kind, 'v': text}`` pair so that
  a witness file replays exactly (floats as hex, Decimals / big ints as text, datetimes as iso text);
* type-strict identity (``same``): equal value *and* equal type (bool is not int, Decimal is not float, naive is not
  aware; tz-aware datetimes must denote the same instant with the same utc offset);
* PEP 440: an own parser (regex of PEP 440 appendix B) and an own ordering key written from the text of the PEP;
* generators of tags, versions (canonical form + spelling variants), invalid keys and manifests.
"""
import datetime
import decimal
import math
import re
import uuid

# ------------------------------------------------------------------------------------------------ value codec


def enc(value):
    """Python primitive -> JSON-able tagged pair."""
    if value is None:
        return {'k': 'none', 'v': ''}
    if isinstance(value, bool):
        return {'k': 'bool', 'v': 'true' if value else 'false'}
    if isinstance(value, int):
        return {'k': 'int', 'v': str(value)}
    if isinstance(value, float):
        return {'k': 'float', 'v': value.hex() if math.isfinite(value) else repr(value)}
    if isinstance(value, str):
        return {'k': 'str', 'v': value}
    if isinstance(value, decimal.Decimal):
        return {'k': 'decimal', 'v': str(value)}
    if isinstance(value, datetime.datetime):
        return {'k': 'datetime', 'v': value.isoformat()}
    if isinstance(value, datetime.date):
        return {'k': 'date', 'v': value.isoformat()}
    raise TypeError(f'unsupported {value!r}')


def dec(pair):
    """Inverse of enc."""
    kind, text = pair['k'], pair['v']
    if kind == 'none':
        return None
    if kind == 'bool':
        return text == 'true'
    if kind == 'int':
        return int(text)
    if kind == 'float':
        return float.fromhex(text) if text.startswith(('0x', '-0x')) else float(text)
    if kind == 'str':
        return text
    if kind == 'decimal':
        return decimal.Decimal(text)
    if kind == 'datetime':
        return datetime.datetime.fromisoformat(text)
    if kind == 'date':
        return datetime.date.fromisoformat(text)
    raise ValueError(kind)


def same(written, read) -> bool:
    """Type-strict identity of a written and a read-back primitive."""
    if type(written) is not type(read):  # pylint: disable=unidiomatic-typecheck
        return False
    if isinstance(written, float) and math.isnan(written):
        return math.isnan(read)
    if isinstance(written, datetime.datetime):
        return (written.tzinfo is None) == (read.tzinfo is None) and written == read and written.utcoffset() == read.utcoffset()
    return written == read


# ------------------------------------------------------------------------------------------------ tags
def hex_escaped(text: str) -> bool:
    """Contains a character whose python repr is a ``\\xNN`` escape (C0/C1 controls, DEL, NBSP, SHY)."""
    return any(repr(c).startswith("'\\x") for c in text)


def uni_escaped(text: str) -> bool:
    """Contains a character whose python repr is a ``\\uNNNN`` / ``\\UNNNNNNNN`` escape (non-printable, > 0xff)."""
    return any(repr(c).startswith(("'\\u", "'\\U")) for c in text)


def string_mechanisms(text: str) -> list:
    """Structural features of a string that the TOML library pinned by forml (toml 0.10.2) is known to mishandle."""
    found = []
    if hex_escaped(text):
        found.append('hex-escaped-char')
    if '\\x' in text:
        found.append('backslash-x')
    if text.startswith('"') and (len(text) == 1 or text[1] == '"'):
        found.append('leading-double-quote')
    if uni_escaped(text) and ('\\u' in text or '\\U' in text):
        found.append('backslash-u-after-escaped-char')
    return found


PLAIN = 'abcxyzuUntr01 49-_.:/TZ'
AWKWARD = ['"', "'", '\\', '\n', '\t', '\r', ' ', '#', '=', '[', ']', '{', '}', ',', '"""', "'''", '\\n', '\\t', '\\"', '\\\\', '\\u0041',
           'é', 'ß', 'Ж', '日本', '한', '😀', '𠀀', ' ', '﻿', '​', 'é', '%s', '{0}', '$x', '\\u', '\\U', '\\N']
BROKEN = ['\x00', '\x01', '\x08', '\x0c', '\x1f', '\x7f', '\x85', '\xa0', '\xad', '\\x', '\\x41']


def gen_string(rng) -> str:
    roll = rng.random()
    if roll < 0.1:
        return rng.choice(['', ' ', 'a', 'true', 'false', '1', '1.5', 'nan', 'inf', '2020-01-02', '2020-01-02T03:04:05', 'null', '[1]', '{a=1}', '# c'])
    pool = list(PLAIN) + AWKWARD * 2 + (BROKEN if roll > 0.85 else [])
    return ''.join(rng.choice(pool) for _ in range(rng.choice([1, 1, 2, 3, 3, 4, 6, 9, 20])))


def gen_datetime(rng, aware=None) -> datetime.datetime:
    micro = rng.choice([0, 0, 1, 10, 100, 1000, 120000, 500000, 999999, rng.randrange(1000000), rng.randrange(1000000)])
    year = rng.choice([1, 999, 1969, 1970, 9999]) if rng.random() < 0.05 else rng.randint(1990, 2100)
    value = datetime.datetime(year, rng.randint(1, 12), rng.randint(1, 28), rng.randrange(24), rng.randrange(60), rng.randrange(60), micro)
    if aware is None:
        aware = rng.random() < 0.35
    if aware:
        minutes = rng.choice([0, 0, 60, -60, 330, -570, 840, -720, 1, -1, 345, rng.randint(-14 * 60, 14 * 60)])
        value = value.replace(tzinfo=datetime.timezone(datetime.timedelta(minutes=minutes)))
    return value


def gen_int(rng) -> int:
    roll = rng.random()
    if roll < 0.4:
        return rng.randint(-100, 100)
    if roll < 0.6:
        return rng.choice([0, 1, -1, 2**31 - 1, 2**31, -(2**31), 2**63 - 1, 2**63, -(2**63) - 1, 2**64, 10**18, 10**30])
    return rng.choice([-1, 1]) * (2 ** rng.randint(8, 200) + rng.randint(-3, 3))


def gen_float(rng, nan=False) -> float:
    roll = rng.random()
    if roll < 0.3:
        return rng.choice([0.0, -0.0, 1.0, -1.0, 0.1, 0.5, 1.5, 3.3, 100.0, 1e15, 1e16, 1e17, 1e22, 1e-5, 1e-7, 1e300, 1e-300, 5e-324,
                           1.7976931348623157e308, 2.2250738585072014e-308, 0.1 + 0.2, float('inf'), float('-inf')] + ([float('nan')] * 4 if nan else []))
    if roll < 0.6:
        return rng.uniform(-1000, 1000)
    return rng.choice([-1, 1]) * rng.random() * 10.0 ** rng.randint(-320, 308)


def gen_decimal(rng) -> decimal.Decimal:
    return decimal.Decimal(rng.choice(['1', '0', '-1', '1.10', '0.5', '1.5', '100', '1E+5', '3.14', '0.1', '1.000', '123456789.123456789123456789',
                                       str(rng.randint(-10**6, 10**6)), f'{rng.randint(-999, 999)}.{rng.randint(0, 99999):05d}']))


def gen_ordinal(rng):
    kind = rng.choice(['none', 'int', 'int', 'float', 'float', 'str', 'str', 'str', 'bool', 'decimal', 'date', 'datetime', 'datetime'])
    if kind == 'none':
        return None
    if kind == 'int':
        return gen_int(rng)
    if kind == 'float':
        return gen_float(rng)
    if kind == 'str':
        return gen_string(rng)
    if kind == 'bool':
        return rng.random() < 0.5
    if kind == 'decimal':
        return gen_decimal(rng)
    if kind == 'date':
        return gen_datetime(rng, aware=False).date()
    return gen_datetime(rng)


def gen_tag(rng, maxstates=8) -> dict:
    """Tag case (JSON-able): training always triggered, tuning present or absent, 0..n states."""
    case = {'training': enc(gen_datetime(rng, aware=rng.random() < 0.15)), 'ordinal': enc(gen_ordinal(rng))}
    roll = rng.random()
    if roll < 0.4:
        case['tuning'], case['score'] = enc(None), enc(None)
    else:
        case['tuning'] = enc(gen_datetime(rng, aware=rng.random() < 0.15))
        case['score'] = enc(None if roll < 0.5 else (rng.randint(-5, 5) if roll < 0.55 else gen_float(rng, nan=True)))
    nstates = rng.choice([0, 0, 1, 2, 3, 5, maxstates, rng.randint(0, maxstates)])
    case['states'] = [str(uuid.UUID(int=rng.getrandbits(128), version=4)) for _ in range(nstates)]
    return case


def tag_signature(case: dict):
    """Canonical signature of a tag case; trivial (None) if nothing but the training timestamp is set."""
    if case['ordinal']['k'] == 'none' and case['tuning']['k'] == 'none' and not case['states']:
        return None
    return ('tag', case['training'], case['ordinal'], case['tuning'], case['score'], case['states'])


# ------------------------------------------------------------------------------------------------ PEP 440
# the regular expression of PEP 440, appendix B
PEP440 = re.compile(
    r'''^\s*
    v?
    (?:
        (?:(?P<epoch>[0-9]+)!)?                           # epoch
        (?P<release>[0-9]+(?:\.[0-9]+)*)                  # release segment
        (?P<pre>                                          # pre-release
            [-_\.]?
            (?P<pre_l>(a|b|c|rc|alpha|beta|pre|preview))
            [-_\.]?
            (?P<pre_n>[0-9]+)?
        )?
        (?P<post>                                         # post release
            (?:-(?P<post_n1>[0-9]+))
            |
            (?:
                [-_\.]?
                (?P<post_l>post|rev|r)
                [-_\.]?
                (?P<post_n2>[0-9]+)?
            )
        )?
        (?P<dev>                                          # dev release
            [-_\.]?
            (?P<dev_l>dev)
            [-_\.]?
            (?P<dev_n>[0-9]+)?
        )?
    )
    (?:\+(?P<local>[a-z0-9]+(?:[-_\.][a-z0-9]+)*))?       # local version
    \s*$''',
    re.VERBOSE | re.IGNORECASE | re.ASCII,
)
PRE = {'a': 0, 'alpha': 0, 'b': 1, 'beta': 1, 'c': 2, 'rc': 2, 'pre': 2, 'preview': 2}
NEG, POS = (0,), (2,)  # sentinels around (1, n)


def pep440_parse(text):
    """-> dict(epoch, release, pre, post, dev, local) or None if the text is not a PEP 440 version."""
    if not isinstance(text, str):
        return None
    match = PEP440.match(text)
    if not match:
        return None
    pre = None
    if match.group('pre_l'):
        pre = (PRE[match.group('pre_l').lower()], int(match.group('pre_n') or 0))
    post = None
    if match.group('post'):
        post = int(match.group('post_n1') or match.group('post_n2') or 0)
    dev = int(match.group('dev_n') or 0) if match.group('dev_l') else None
    local = None
    if match.group('local'):
        local = [int(p) if p.isdigit() else p.lower() for p in re.split(r'[-_\.]', match.group('local'))]
    return {'epoch': int(match.group('epoch') or 0), 'release': [int(p) for p in match.group('release').split('.')], 'pre': pre,
            'post': post, 'dev': dev, 'local': local}


def pep440_key(parsed: dict):
    """Total ordering key written from the "Summary of permitted suffixes and relative ordering" of PEP 440."""
    release = list(parsed['release'])
    while len(release) > 1 and release[-1] == 0:
        release.pop()
    if parsed['pre'] is None and parsed['post'] is None and parsed['dev'] is not None:
        pre = NEG  # X.Y.devN sorts before every pre-release of X.Y
    elif parsed['pre'] is None:
        pre = POS
    else:
        pre = (1,) + tuple(parsed['pre'])
    post = NEG if parsed['post'] is None else (1, parsed['post'])
    dev = POS if parsed['dev'] is None else (1, parsed['dev'])
    if parsed['local'] is None:
        local = ()
    else:  # numeric segments sort after alphanumeric ones, lexicographic vs numeric order, prefix first
        local = tuple((1, p, '') if isinstance(p, int) else (0, 0, p) for p in parsed['local'])
    return parsed['epoch'], tuple(release), pre, post, dev, (0,) if parsed['local'] is None else (1,), local


def canonical(parsed: dict) -> str:
    text = f"{parsed['epoch']}!" if parsed['epoch'] else ''
    text += '.'.join(map(str, parsed['release']))
    if parsed['pre'] is not None:
        text += 'a b rc'.split()[parsed['pre'][0]] + str(parsed['pre'][1])
    if parsed['post'] is not None:
        text += f".post{parsed['post']}"
    if parsed['dev'] is not None:
        text += f".dev{parsed['dev']}"
    if parsed['local'] is not None:
        text += '+' + '.'.join(map(str, parsed['local']))
    return text


def gen_version(rng) -> dict:
    """Structured version with small components so that equal and adjacent versions are frequent."""
    small = [0, 0, 1, 1, 2, 3, 10]
    release = [rng.choice(small + [2024, 10**12]) if rng.random() < 0.15 else rng.choice(small) for _ in range(rng.choice([1, 2, 2, 3, 3, 4]))]
    return {
        'epoch': rng.choice([0, 0, 0, 0, 0, 1, 2]),
        'release': release,
        'pre': (rng.randrange(3), rng.choice([0, 1, 2, 10])) if rng.random() < 0.3 else None,
        'post': rng.choice([0, 1, 2, 10]) if rng.random() < 0.2 else None,
        'dev': rng.choice([0, 1, 2, 10]) if rng.random() < 0.25 else None,
        'local': [rng.choice([0, 1, 2, 10, 'a', 'b', 'abc', 'ubuntu', 'a1', '1a']) for _ in range(rng.choice([1, 1, 2, 3]))] if rng.random() < 0.2 else None,
    }


def spell(parsed: dict, rng) -> str:
    """A random legal spelling (PEP 440 normalisation rules) of the structured version."""
    text = rng.choice(['', '', '', 'v', 'V'])
    if parsed['epoch'] or rng.random() < 0.05:
        text += f"{parsed['epoch']}!"
    text += '.'.join(('0' if rng.random() < 0.05 else '') + str(p) for p in parsed['release'])
    if parsed['pre'] is not None:
        names = [['a', 'alpha', 'A', 'ALPHA'], ['b', 'beta', 'B'], ['rc', 'c', 'pre', 'preview', 'RC']][parsed['pre'][0]]
        number = '' if parsed['pre'][1] == 0 and rng.random() < 0.3 else str(parsed['pre'][1])
        text += rng.choice(['', '', '.', '-', '_']) + rng.choice(names) + (rng.choice(['', '', '.', '-', '_']) if number else '') + number
    if parsed['post'] is not None:
        if rng.random() < 0.2 and text[-1].isdigit():  # the implicit form "-N" is only unambiguous after a number
            text += f"-{parsed['post']}"
        else:
            number = '' if parsed['post'] == 0 and rng.random() < 0.3 else str(parsed['post'])
            text += rng.choice(['.', '.', '', '-', '_']) + rng.choice(['post', 'post', 'rev', 'r', 'POST']) + (rng.choice(['', '', '.', '-', '_']) if number else '') + number
    if parsed['dev'] is not None:
        number = '' if parsed['dev'] == 0 and rng.random() < 0.3 else str(parsed['dev'])
        text += rng.choice(['.', '.', '', '-', '_']) + rng.choice(['dev', 'dev', 'DEV']) + (rng.choice(['', '', '.', '-', '_']) if number else '') + number
    if parsed['local'] is not None:
        text += '+' + ''.join((str(p).upper() if rng.random() < 0.1 else str(p)) + rng.choice(['.', '.', '-', '_']) for p in parsed['local'])
        text = text.rstrip('.-_')
    if rng.random() < 0.05:
        text = rng.choice([' ', '\t', '\n']) + text + rng.choice([' ', '\n', ''])
    return text


INVALID_VERSIONS = ['', ' ', 'abc', 'latest', 'v', '1.0-foo', '1..0', '1.0+', '+1', '-1', '1_0', '1.0+a+b', '1.0.', '.1', '1.0 rc1', '1!', '!1',
                    '1.0++', '1.0+ä', '१', '1,0', '1.0rc1rc2', '1.0.dev1.dev2', '1.0.post1.post2', '1.0a1b1', '1.0dev1a1', '1.0+a..b',
                    '1.0+-a', '1.0/2', '1.0;', '1.0=', '0x10', '1e', 'one', '1.x', '1.*', '>=1.0', '1.0.post-1', '1.0+a!b']


def mutate(text: str, rng) -> str:
    """A string near a valid version (may or may not be valid - the oracle decides)."""
    pos = rng.randrange(len(text) + 1)
    roll = rng.random()
    if roll < 0.5:
        return text[:pos] + rng.choice(list('.-_+!x*/ ,é²') + ['..', 'foo', '++']) + text[pos:]
    if roll < 0.75 and text:
        pos = rng.randrange(len(text))
        return text[:pos] + text[pos + 1:]
    return text[:pos] + text[pos:] * 2


# ------------------------------------------------------------------------------------------------ generation keys
INVALID_GENERATIONS = [
    {'k': 'str', 'v': v} for v in ['', ' ', '0', '-1', '-0', '00', '000', '1.5', '1.0', '2.0', 'abc', 'v1', '1a', 'a1', '1e3', '0x10', '0b1', 'nan', 'inf',
                                    '-inf', '1,000', '1 2', '1.', '.1', '½', '²', 'one', '1-1', '--1', '1+1', '-5', '-100', 'None', 'True', '1j']
] + [{'k': 'int', 'v': v} for v in ['0', '-1', '-2', '-100', str(-(10**30))]] + [
    {'k': 'float', 'v': v} for v in [(1.5).hex(), (0.5).hex(), (-1.0).hex(), (0.0).hex(), 'nan', 'inf', '-inf']] + [{'k': 'none', 'v': ''}]
LENIENT_GENERATIONS = ['01', ' 1', '1 ', '+1', '1_0', '１２', '١', '1\n', '\t7']  # python int() syntax beyond [1-9][0-9]*: no verdict


def gen_generation(rng) -> int:
    roll = rng.random()
    if roll < 0.7:
        return rng.randint(1, 30)
    if roll < 0.9:
        return rng.choice([1, 2, 9, 10, 11, 99, 100, 101, 999, 1000, 2**31, 2**63, 2**64])
    return 10 ** rng.randint(1, 40) + rng.randint(-1, 1)


# ------------------------------------------------------------------------------------------------ manifests
NAMES = ['foo', 'a', 'A', 'Foo.Bar_baz-9', 'my-project', 'my_project', 'my.project', 'x1', '0', '1', '3d', 'helloworld', 'forml', 'a-b-c', 'A.B', 'z9', 'v1',
         '1.0', 'name-with-a-long-tail-' + 'x' * 60]
IDENTS = ['p', 'pk', 'sub', 'hello', 'world', 'a_b', '_private', 'Camel', 'x1', 'deep', 'é', 'модуль', '模块', 'ß', 'ñandú', 'Ω', 'pkg2', '__dunder__', 'l' * 40]
ASTRAL_IDENT = '\U00020000'  # CJK extension B ideograph: a legal python identifier outside of the BMP


def gen_package(rng, depth=None) -> str:
    return '.'.join(rng.choice(IDENTS) for _ in range(depth or rng.choice([1, 1, 2, 2, 3, 4])))


def gen_manifest(rng) -> dict:
    package = gen_package(rng)
    modules = {}
    for component in rng.sample(['source', 'pipeline', 'evaluation'], rng.choice([0, 0, 1, 2, 3])):
        modules[component] = rng.choice([gen_package(rng), package + '.' + gen_package(rng), rng.choice(IDENTS)])
    return {'name': rng.choice(NAMES), 'version': spell(gen_version(rng), rng).strip(), 'package': package, 'modules': modules}
