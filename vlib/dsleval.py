"""Reference relational evaluator (bag semantics, NULLs, three-valued logic) and an independent SQL emitter for the
statement ASTs of vlib.dslgen - the two oracles of the three-way rule used by C06/C14 (DESIGN 3.2).

Both are written from the documented meaning of the DSL, not from forml's parser.  ``simplify`` rewrites constructs whose
meaning differs between SQL engines (integer division, modulo sign, rounding casts, huge integers, dates arithmetic) into
kind-preserving constructs all engines agree on, so that the generators of dslgen can be reused at full width.
"""
import collections
import itertools
import math

from . import dslgen

UNKNOWN = None
SQLTYPE = {'Integer': 'BIGINT', 'Float': 'DOUBLE', 'String': 'VARCHAR', 'Boolean': 'BOOLEAN', 'Date': 'VARCHAR'}


class Unsupported(Exception):
    """Statement outside the fragment whose meaning the oracles fix."""


# ------------------------------------------------------------------------------------------------ simplification
def simplify(ast, env=None):
    """Kind-preserving rewrite into the engine-independent fragment."""
    env = env or dslgen.Env(ast)

    def lit_of(kind):
        kind = (kind or 'Integer').split('|')[0]
        return {'Integer': ('literal', 1, 'int'), 'Float': ('literal', 0.5, 'float'), 'String': ('literal', 'a', 'str'),
                'Boolean': ('literal', True, 'bool'), 'Date': ('literal', '2020-01-01', 'date')}[kind]

    def feat(node):
        tag = node[0]
        if tag == 'column':
            return node
        if tag == 'literal':
            value = node[1]
            if node[2] == 'int' and abs(value) > 1000:
                return ('literal', value % 7, 'int')
            if node[2] == 'date':
                return node
            return node
        if tag == 'alias':
            return ('alias', feat(node[1]), node[2])
        if tag == 'arith':
            op = node[1]
            if op in ('/', '%'):
                op = '+'
            return ('arith', op, feat(node[2]), feat(node[3]))
        if tag == 'cmp':
            return ('cmp', node[1], feat(node[2]), feat(node[3]))
        if tag in ('and', 'or'):
            return (tag, feat(node[1]), feat(node[2]))
        if tag in ('not', 'isnull', 'notnull'):
            return (tag, feat(node[1]))
        if tag == 'agg':
            return ('agg', node[1], feat(node[2]))
        if tag == 'func':
            inner = feat(node[2])
            if node[1] == 'abs':
                return ('func', 'abs', inner)
            kind = dslgen.kind_of(inner, env)
            if node[1] in ('ceil', 'floor') and kind == 'Integer':
                return inner
            return lit_of('Integer')
        if tag == 'cast':
            inner = feat(node[1])
            kind = dslgen.kind_of(inner, env)
            if node[2] == kind:
                return inner
            if node[2] == 'Float' and kind == 'Integer':
                return ('cast', inner, 'Float')
            return lit_of(node[2])
        if tag == 'window':
            raise Unsupported('window')
        raise Unsupported(tag)

    def src(node):
        tag = node[0]
        if tag == 'table':
            return node
        if tag == 'reference':
            return ('reference', src(node[1]), node[2])
        if tag == 'join':
            return ('join', src(node[1]), src(node[2]), node[3], feat(node[4]) if node[4] is not None else None)
        if tag == 'set':
            return ('set', src(node[1]), src(node[2]), node[3])
        if tag == 'query':
            return ('query', src(node[1]), tuple(feat(f) for f in node[2]), feat(node[3]) if node[3] is not None else None,
                    tuple(feat(f) for f in node[4]), feat(node[5]) if node[5] is not None else None,
                    tuple((feat(f), d) for f, d in node[6]), node[7])
        raise Unsupported(tag)

    return src(dslgen.norm(ast))


# ------------------------------------------------------------------------------------------------ evaluator
def _and(a, b):
    if a is False or b is False:
        return False
    if a is None or b is None:
        return None
    return True


def _or(a, b):
    if a is True or b is True:
        return True
    if a is None or b is None:
        return None
    return False


def _truth(value):
    if value is None:
        return None
    return bool(value)


class Evaluator:
    """evaluate(ast) -> list of output row tuples (bag; ordered only when the statement orders)."""

    def __init__(self, ast, data, occurrences=None):
        """``occurrences``: optional list of row lists, one per table *occurrence* in visit order (depth-first, left to
        right) - lets a check give every occurrence of a table its own (e.g. hint-filtered) content."""
        self.ast = dslgen.norm(ast)
        self.env = dslgen.Env(self.ast)
        self.data = data
        self.occurrences = occurrences
        self.visited = 0

    def rows_of(self, name):
        if self.occurrences is None:
            return [tuple(r) for r in self.data[name]]
        rows = self.occurrences[self.visited]
        self.visited += 1
        return [tuple(r) for r in rows]

    def run(self):
        return self.statement(self.ast)

    # ---- sources as relations with qualified columns
    def relation(self, source):
        tag = source[0]
        if tag == 'table':
            cols = [(source[1], c) for c, _ in self.env.schema[source[1]]]
            return cols, self.rows_of(source[1])
        if tag == 'reference':
            inner = source[1]
            if inner[0] == 'table':
                cols = [(source[2], c) for c, _ in self.env.schema[inner[1]]]
                return cols, self.rows_of(inner[1])
            names = [n for n, _ in dslgen.schema_of(inner, self.env)]
            return [(source[2], n) for n in names], self.statement(inner)
        if tag == 'join':
            lcols, lrows = self.relation(source[1])
            rcols, rrows = self.relation(source[2])
            cols = lcols + rcols
            kind, cond = source[3], source[4]
            out = []
            if kind == 'cross':
                return cols, [l + r for l in lrows for r in rrows]
            matched_right = set()
            for l in lrows:
                hit = False
                for j, r in enumerate(rrows):
                    row = l + r
                    if _truth(self.scalar(cond, dict(zip(cols, row)))) is True:
                        out.append(row)
                        hit = True
                        matched_right.add(j)
                if not hit and kind in ('left', 'full'):
                    out.append(l + (None,) * len(rcols))
            if kind in ('right', 'full'):
                for j, r in enumerate(rrows):
                    if j not in matched_right:
                        out.append((None,) * len(lcols) + r)
            return cols, out
        raise Unsupported(f'{tag} as a query source')

    def statement(self, node):
        if node[0] == 'set':
            left, right = self.statement(node[1]), self.statement(node[2])
            lset, rset = _distinct(left), _distinct(right)
            rkeys = {_norm_row(r) for r in rset}
            if node[3] == 'union':
                seen, out = set(), []
                for row in lset + rset:
                    if _norm_row(row) not in seen:
                        seen.add(_norm_row(row))
                        out.append(row)
                return out
            if node[3] == 'intersection':
                return [r for r in lset if _norm_row(r) in rkeys]
            return [r for r in lset if _norm_row(r) not in rkeys]
        if node[0] != 'query':
            cols, rows = self.relation(node)
            return rows
        _, source, select, where, groupby, having, orderby, rows = node
        cols, tuples = self.relation(source)
        envs = [dict(zip(cols, t)) for t in tuples]
        if where is not None:
            envs = [e for e in envs if _truth(self.scalar(where, e)) is True]
        outputs = list(select) if select else [('column', o, n) for o, n in cols]
        aggregated = bool(groupby) or any(dslgen.contains_aggregate(f) for f in outputs) or (
            having is not None and dslgen.contains_aggregate(having))
        if aggregated:
            groups = collections.OrderedDict()
            if groupby:
                for e in envs:
                    key = tuple(_norm(self.scalar(g, e)) for g in groupby)
                    groups.setdefault(key, []).append(e)
            else:
                groups[()] = envs
            units = list(groups.values())
            if having is not None:
                units = [g for g in units if _truth(self.grouped(having, g)) is True]
            value = self.grouped
        else:
            units = envs
            value = self.scalar
        result = [(tuple(value(f, u) for f in outputs), tuple(value(f, u) for f, _ in orderby)) for u in units]
        if orderby:
            for position in reversed(range(len(orderby))):
                direction = orderby[position][1]
                result.sort(key=lambda item, p=position: _sort_key(item[1][p]), reverse=direction == 'desc')
        out = [row for row, _ in result]
        if rows is not None:
            count, offset = rows
            out = out[offset:offset + count]
        return out

    # ---- expressions
    def scalar(self, node, env):
        tag = node[0]
        if tag == 'column':
            return env[(self.env.origin_id(node[1]), node[2])]
        if tag == 'literal':
            return node[1]
        if tag == 'alias':
            return self.scalar(node[1], env)
        if tag == 'arith':
            a, b = self.scalar(node[2], env), self.scalar(node[3], env)
            if a is None or b is None:
                return None
            return {'+': a + b, '-': a - b, '*': a * b}[node[1]]
        if tag == 'cmp':
            a, b = self.scalar(node[2], env), self.scalar(node[3], env)
            if a is None or b is None:
                return None
            return {'==': a == b, '!=': a != b, '<': a < b, '<=': a <= b, '>': a > b, '>=': a >= b}[node[1]]
        if tag == 'and':
            return _and(_truth(self.scalar(node[1], env)), _truth(self.scalar(node[2], env)))
        if tag == 'or':
            return _or(_truth(self.scalar(node[1], env)), _truth(self.scalar(node[2], env)))
        if tag == 'not':
            v = _truth(self.scalar(node[1], env))
            return None if v is None else not v
        if tag == 'isnull':
            return self.scalar(node[1], env) is None
        if tag == 'notnull':
            return self.scalar(node[1], env) is not None
        if tag == 'func' and node[1] == 'abs':
            v = self.scalar(node[2], env)
            return None if v is None else abs(v)
        if tag == 'cast':
            v = self.scalar(node[1], env)
            return None if v is None else float(v)
        raise Unsupported(tag)

    def grouped(self, node, group):
        """Value of a feature for a group of rows (aggregates over the group, the rest from any row)."""
        tag = node[0]
        if tag == 'agg':
            values = [v for v in (self.scalar(node[2], e) for e in group) if v is not None]
            fn = node[1]
            if fn == 'count':
                return len(values)
            if not values:
                return None
            if fn == 'sum':
                return sum(values)
            if fn == 'min':
                return min(values)
            if fn == 'max':
                return max(values)
            return sum(values) / len(values)
        if not dslgen.contains_aggregate(node):
            if not group:
                raise Unsupported('non-aggregate feature of an empty global group')
            return self.scalar(node, group[0])
        if tag == 'alias':
            return self.grouped(node[1], group)
        if tag in ('arith', 'cmp'):
            a, b = self.grouped(node[2], group), self.grouped(node[3], group)
            if a is None or b is None:
                return None
            return {'+': lambda: a + b, '-': lambda: a - b, '*': lambda: a * b, '==': lambda: a == b, '!=': lambda: a != b,
                    '<': lambda: a < b, '<=': lambda: a <= b, '>': lambda: a > b, '>=': lambda: a >= b}[node[1]]()
        if tag == 'and':
            return _and(_truth(self.grouped(node[1], group)), _truth(self.grouped(node[2], group)))
        if tag == 'or':
            return _or(_truth(self.grouped(node[1], group)), _truth(self.grouped(node[2], group)))
        if tag == 'not':
            v = _truth(self.grouped(node[1], group))
            return None if v is None else not v
        if tag in ('isnull', 'notnull'):
            v = self.grouped(node[1], group)
            return (v is None) == (tag == 'isnull')
        if tag == 'func':
            v = self.grouped(node[2], group)
            return None if v is None else abs(v)
        if tag == 'cast':
            v = self.grouped(node[1], group)
            return None if v is None else float(v)
        raise Unsupported(tag)


def _norm(value):
    """Engine-independent representation of one cell."""
    if value is None:
        return None
    if isinstance(value, bool):
        return float(value)
    if isinstance(value, (int, float)):
        if isinstance(value, float) and (math.isnan(value) or math.isinf(value)):
            return repr(value)
        return round(float(value), 6)
    if hasattr(value, 'isoformat'):
        return value.isoformat()[:10]
    if hasattr(value, 'item'):
        return _norm(value.item())
    try:
        import decimal

        if isinstance(value, decimal.Decimal):
            return round(float(value), 6)
    except ImportError:
        pass
    return str(value)


def _norm_row(row):
    return tuple(_norm(v) for v in row)


def _distinct(rows):
    seen, out = set(), []
    for row in rows:
        key = _norm_row(row)
        if key not in seen:
            seen.add(key)
            out.append(row)
    return out


def _sort_key(value):
    value = _norm(value)
    return (value is not None, value if value is not None else 0) if not isinstance(value, str) else (True, value)


def bag(rows):
    return collections.Counter(_norm_row(r) for r in rows)


def evaluate(ast, data):
    return Evaluator(ast, data).run()


# ------------------------------------------------------------------------------------------------ ordering helpers
def order_spec(ast):
    """(orderby features with directions, rows) of the top-level query, else (None, None)."""
    ast = dslgen.norm(ast)
    if ast[0] == 'query':
        return ast[6], ast[7]
    return (), None


def strip_rows(ast):
    """Top-level query without limit/offset."""
    ast = dslgen.norm(ast)
    if ast[0] == 'query' and ast[7] is not None:
        return ast[:7] + (None,)
    return ast


def inner_rows(ast):
    """True if a nested (non top-level) query has a limit/offset (its content would depend on tie order)."""
    ast = dslgen.norm(ast)
    return any(node[0] == 'query' and node[7] is not None and path != () for path, node in dslgen.walk(ast))


def uses(ast, *tags):
    return any(node[0] in tags for _, node in dslgen.walk(dslgen.norm(ast)))


# ------------------------------------------------------------------------------------------------ SQL emitter
class Sql:
    """Independent SQL text for an AST (ANSI subset understood by sqlite >= 3.39 and duckdb)."""

    def __init__(self, ast):
        self.ast = dslgen.norm(ast)
        self.env = dslgen.Env(self.ast)
        self.counter = itertools.count()

    def text(self):
        return self.statement(self.ast)

    def source(self, node):
        tag = node[0]
        if tag == 'table':
            return f'{node[1].lower()} AS "{node[1]}"'
        if tag == 'reference':
            if node[1][0] == 'table':
                return f'{node[1][1].lower()} AS "{node[2]}"'
            return f'({self.statement(node[1])}) AS "{node[2]}"'
        if tag == 'join':
            left, right = self.source(node[1]), self.source(node[2])
            if node[1][0] == 'join':
                left = f'({left})'
            if node[2][0] == 'join':
                right = f'({right})'
            if node[3] == 'cross':
                return f'{left} CROSS JOIN {right}'
            kind = {'inner': 'INNER', 'left': 'LEFT OUTER', 'right': 'RIGHT OUTER', 'full': 'FULL OUTER'}[node[3]]
            return f'{left} {kind} JOIN {right} ON {self.expr(node[4])}'
        raise Unsupported(f'{tag} as a query source')

    def columns(self, source):
        tag = source[0]
        if tag == 'table':
            return [(source[1], c) for c, _ in self.env.schema[source[1]]]
        if tag == 'reference':
            return [(source[2], n) for n, _ in dslgen.schema_of(source[1], self.env)]
        return self.columns(source[1]) + self.columns(source[2])

    def statement(self, node):
        if node[0] == 'set':
            op = {'union': 'UNION', 'intersection': 'INTERSECT', 'difference': 'EXCEPT'}[node[3]]
            return (f'SELECT * FROM ({self.statement(node[1])}) AS "s{next(self.counter)}" {op} '
                    f'SELECT * FROM ({self.statement(node[2])}) AS "s{next(self.counter)}"')
        if node[0] != 'query':  # a bare origin (join) used as a statement: every column under its own name where unique
            cols = ', '.join(f'"{o}"."{n}" AS "{n}"' if self._unique(node, n) else f'"{o}"."{n}" AS "c{i}"'
                             for i, (o, n) in enumerate(self.columns(node)))
            return f'SELECT {cols} FROM {self.source(node)}'
        _, source, select, where, groupby, having, orderby, rows = node
        if select:
            names = [dslgen.feature_name(f) for f in select]
            items = ', '.join(f'{self.expr(f)} AS "{n if n is not None else "c" + str(i)}"' for i, (f, n) in enumerate(zip(select, names)))
        else:
            items = ', '.join(f'"{o}"."{n}" AS "{n}"' if self._unique(source, n) else f'"{o}"."{n}" AS "c{i}"'
                              for i, (o, n) in enumerate(self.columns(source)))
        text = f'SELECT {items} FROM {self.source(source)}'
        if where is not None:
            text += f' WHERE {self.expr(where)}'
        if groupby:
            text += ' GROUP BY ' + ', '.join(self.expr(g) for g in groupby)
        if having is not None:
            text += f' HAVING {self.expr(having)}'
        if orderby:
            text += ' ORDER BY ' + ', '.join(f'{self.expr(f)} {"DESC" if d == "desc" else "ASC"}' for f, d in orderby)
        if rows is not None:
            text += f' LIMIT {rows[0]} OFFSET {rows[1]}'
        return text

    def _unique(self, source, name):
        return sum(1 for _, n in self.columns(source) if n == name) == 1

    def expr(self, node):
        tag = node[0]
        if tag == 'column':
            return f'"{self.env.origin_id(node[1])}"."{node[2]}"'
        if tag == 'literal':
            value = node[1]
            if node[2] == 'bool':
                return 'TRUE' if value else 'FALSE'
            if node[2] in ('str', 'date'):
                return "'" + str(value).replace("'", "''") + "'"
            if node[2] == 'float':
                return f'CAST({value!r} AS DOUBLE)'
            return f'({value})'
        if tag == 'alias':
            return self.expr(node[1])
        if tag == 'arith':
            return f'({self.expr(node[2])} {node[1]} {self.expr(node[3])})'
        if tag == 'cmp':
            op = {'==': '=', '!=': '<>'}.get(node[1], node[1])
            return f'({self.expr(node[2])} {op} {self.expr(node[3])})'
        if tag == 'and':
            return f'({self.expr(node[1])} AND {self.expr(node[2])})'
        if tag == 'or':
            return f'({self.expr(node[1])} OR {self.expr(node[2])})'
        if tag == 'not':
            return f'(NOT {self.expr(node[1])})'
        if tag == 'isnull':
            return f'({self.expr(node[1])} IS NULL)'
        if tag == 'notnull':
            return f'({self.expr(node[1])} IS NOT NULL)'
        if tag == 'agg':
            return f'{node[1].upper()}({self.expr(node[2])})'
        if tag == 'func':
            return f'ABS({self.expr(node[2])})'
        if tag == 'cast':
            return f'CAST({self.expr(node[1])} AS DOUBLE)'
        raise Unsupported(tag)


def to_sql(ast):
    return Sql(ast).text()


# ------------------------------------------------------------------------------------------------ storage
def random_data(rng, schema=None):
    """Small random table contents over tiny domains (NULLs, ties, sometimes an empty table)."""
    schema = schema or {**dslgen.SCHEMA, **dslgen.TWIN}
    domain = {'Integer': [0, 1, 1, 2, 3, -1, None], 'Float': [0.5, 1.5, -1.0, 2.0, 0.5, None], 'String': ['a', 'b', '', 'c', None],
              'Boolean': [True, False, None], 'Date': ['2020-01-01', '2021-06-30', None]}
    data = {}
    for name, fields in schema.items():
        count = 0 if rng.random() < 0.08 else rng.randint(1, 6)
        data[name] = [tuple(rng.choice(domain[kind]) for _, kind in fields) for _ in range(count)]
    return data


def create_sql(schema=None):
    schema = schema or {**dslgen.SCHEMA, **dslgen.TWIN}
    return [f'CREATE TABLE {name.lower()} (' + ', '.join(f'"{c}" {SQLTYPE[k]}' for c, k in fields) + ')'
            for name, fields in schema.items()]
