"""Symbolic payloads: provenance terms and uninterpreted-function actors for the (payload agnostic) flow layer.

A value observed anywhere (a sink input, a persisted state, a metric argument) is a Term naming the whole dataflow
path that produced it - so equality of observed values *is* equality of dataflow.
"""
import hashlib
import pickle
import typing

from forml import flow


class Term:
    """Immutable provenance term ``op(args...)`` with a structural digest (equality/hash in O(1), DAG-shared subterms)."""

    __slots__ = ('op', 'args', 'dg')

    def __init__(self, op: str, *args: typing.Any):
        self.op = op
        self.args = args
        h = hashlib.sha1(op.encode())
        for a in args:
            h.update(b'|')
            h.update(a.dg.encode() if isinstance(a, Term) else ('#' + repr(a)).encode())
        self.dg = h.hexdigest()[:20]

    def __eq__(self, other):
        return isinstance(other, Term) and other.dg == self.dg

    def __ne__(self, other):
        return not self == other

    def __hash__(self):
        return hash(self.dg)

    def __reduce__(self):
        return _restore, (self.op, self.args, self.dg)

    def show(self, depth: int = 6) -> str:
        if not self.args:
            return self.op
        if depth <= 0:
            return f'{self.op}(..)'
        return f'{self.op}(' + ', '.join(a.show(depth - 1) if isinstance(a, Term) else repr(a) for a in self.args) + ')'

    __repr__ = show

    def __str__(self):
        return self.show(12)

    def walk(self, seen: typing.Optional[set] = None) -> typing.Iterator['Term']:
        """All distinct sub-terms (self included)."""
        seen = set() if seen is None else seen
        stack = [self]
        while stack:
            term = stack.pop()
            if term.dg in seen:
                continue
            seen.add(term.dg)
            yield term
            stack.extend(a for a in term.args if isinstance(a, Term))

    def find(self, op: str) -> list['Term']:
        return [t for t in self.walk() if t.op == op]

    def size(self) -> int:
        return sum(1 for _ in self.walk())


def _restore(op, args, dg):
    """Unpickle without re-hashing (the digest travels with the term)."""
    self = Term.__new__(Term)
    self.op, self.args, self.dg = op, args, dg
    return self


NONE = Term('none')
_UNSTATE: dict = {}


def term(value: typing.Any) -> Term:
    """Lift an arbitrary observed value into a term."""
    if isinstance(value, Term):
        return value
    if value is None:
        return NONE
    if hasattr(value, '__term__'):
        return value.__term__()
    if hasattr(value, 'tolist') and not isinstance(value, (bytes, bytearray, str)):
        return term(value.tolist())
    if isinstance(value, (tuple, list)):
        return Term('tuple', *(term(v) for v in value))
    if isinstance(value, (bytes, bytearray)):
        if not value:
            return NONE
        try:
            return term(pickle.loads(value))
        except Exception:  # pylint: disable=broad-except
            return Term('bytes', bytes(value))
    return Term('lit', value)


def unstate(value: typing.Optional[bytes]) -> Term:
    """State bytes -> term (empty / missing state is NONE)."""
    if not value:
        return NONE
    key = bytes(value)
    cached = _UNSTATE.get(key)
    if cached is None:
        loaded = pickle.loads(key)
        cached = loaded if isinstance(loaded, Term) else term(loaded)
        if len(_UNSTATE) > 512:
            _UNSTATE.clear()
        _UNSTATE[key] = cached
    return cached


def stamp(value: Term, epoch: typing.Optional[str], memo: typing.Optional[dict] = None) -> Term:
    """Label every not yet labelled application in the term with the epoch (what actors created under VERIF_EPOCH=epoch
    produce); applications inside older states keep the label of the run that computed them."""
    if not epoch:
        return value
    memo = {} if memo is None else memo

    def visit(node):
        if not isinstance(node, Term):
            return node
        done = memo.get(node.dg)
        if done is None:
            args = tuple(visit(a) for a in node.args)
            if node.op == 'app' and '#' not in args[0]:
                args = (f'{args[0]}#{epoch}',) + args[1:]
            done = memo[node.dg] = Term(node.op, *args)
        return done

    return visit(value)


def unstamp(value: Term, memo: typing.Optional[dict] = None) -> Term:
    """Drop all epoch labels."""
    memo = {} if memo is None else memo

    def visit(node):
        if not isinstance(node, Term):
            return node
        done = memo.get(node.dg)
        if done is None:
            args = tuple(visit(a) for a in node.args)
            if node.op == 'app':
                args = (args[0].split('#')[0],) + args[1:]
            done = memo[node.dg] = Term(node.op, *args)
        return done

    return visit(value)


def _log(path: typing.Optional[str], record: dict) -> None:
    """Append one observation line (O_APPEND => safe across threads and processes for small writes)."""
    if path:
        import json
        import os

        data = (json.dumps(record) + '\n').encode()
        fd = os.open(path, os.O_WRONLY | os.O_APPEND | os.O_CREAT, 0o644)
        try:
            os.write(fd, data)
        finally:
            os.close(fd)


class Opaque:
    """A hyper-parameter value that every textual rendering shows the same way (forml renders anything with a ``__name__``
    by that name - the way all lambdas render as ``<lambda>``) while its content differs: two builders differing only in
    such a value have equal reprs, different pickles and different behaviour."""

    __name__ = 'n'

    def __init__(self, value: str):
        self.value = value

    def __call__(self) -> str:
        return self.value

    def __eq__(self, other):
        return isinstance(other, Opaque) and other.value == self.value

    def __hash__(self):
        return hash(('Opaque', self.value))


class Stateless(flow.Actor):
    """``apply(*x) = app(name, none, x...)`` (per-port ``out(i, .)`` when nout > 1).

    A ``None`` input (the way pyfunc hands "no entry" to the head task) is dropped.  With ``log`` every result is
    appended to that file so that any backend (threads, processes) can be observed from outside.
    """

    def __init__(self, name: str, nout: int = 1, log: typing.Optional[str] = None, epoch: typing.Optional[str] = None):
        import os

        self.given = name  # as supplied: a plain string or an Opaque carrying it
        self.name = name() if isinstance(name, Opaque) else name
        self.nout = nout
        self.log = log
        #: hyper-parameter "of the current code": taken from the deployment environment when the actor is created; when set
        #: every application is labelled ``name#epoch`` so an observer sees which hyper-parameters the actor ran with
        self.epoch = epoch if epoch is not None else os.environ.get('VERIF_EPOCH')
        self.state: typing.Optional[Term] = None

    def apply(self, *features):
        label = f'{self.name}#{self.epoch}' if self.epoch else self.name
        result = Term('app', label, self.state or NONE, *(term(f) for f in features if f is not None))
        _log(self.log, {'n': self.name, 'k': 'apply', 'dg': result.dg})
        if self.nout > 1:
            return tuple(Term('out', i, result) for i in range(self.nout))
        return result

    def get_params(self):
        return {'name': self.given, 'nout': self.nout, 'log': self.log, 'epoch': self.epoch}

    def set_params(self, **params):
        for key, value in params.items():
            if key == 'name':
                self.given, value = value, value() if isinstance(value, Opaque) else value
            setattr(self, key, value)


class Stateful(Stateless):
    """``train(x, y): state := fit(name, previous state, x, y)``; state travels as pickled term."""

    def train(self, features, labels, /):
        self.state = Term('fit', self.name, self.state or NONE, term(features), term(labels))
        _log(self.log, {'n': self.name, 'k': 'train', 'dg': self.state.dg})

    def get_state(self) -> bytes:
        if self.state is None:
            return b''
        if self.epoch:  # whole-model snapshot codec: the encoded state carries the configuration it was trained under
            return pickle.dumps(('snapshot', self.epoch, self.state))
        return pickle.dumps(self.state)

    def set_state(self, state: bytes) -> None:
        if not state:
            # forml itself never hands an empty state over (every preset skips falsy values): an actor that reacts to one
            # makes a runner that does visible
            self.state = Term('blank')
            return
        if state:
            loaded = pickle.loads(state)
            if isinstance(loaded, tuple) and loaded and loaded[0] == 'snapshot':
                _, self.epoch, self.state = loaded
            else:
                self.state = unstate(state)


class Hollow(Stateful):
    """A trained actor with nothing to persist (nothing learnt / a train function returning None): its state is the empty
    byte string before and after training."""

    def get_state(self) -> bytes:
        return b''


def builder(name: str, stateful: bool = False, nout: int = 1, log: typing.Optional[str] = None, hollow: bool = False) -> 'flow.Builder':
    return (Hollow if stateful and hollow else Stateful if stateful else Stateless).builder(name=name, nout=nout, log=log)


def strip_out(value: typing.Any) -> Term:
    """Functor result (term or tuple of per-port terms) -> the underlying app term."""
    if isinstance(value, tuple):
        inner = {v.args[1] for v in value if isinstance(v, Term) and v.op == 'out'}
        if len(inner) == 1 and len(value) == len([v for v in value if isinstance(v, Term) and v.op == 'out']):
            return inner.pop()
        return term(value)
    return term(value)


class Interpreter:
    """Independent dependency-ordered evaluation of a symbol table (memoised; counts calls per instruction)."""

    def __init__(self, symbols, entry=None):
        self.entry = entry  # handed to source functors (instructions without arguments) the way serving does
        self.symbols = list(symbols)
        self.table = {}
        for symbol in self.symbols:
            if id(symbol.instruction) in self.table:
                raise AssertionError(f'instruction listed twice: {symbol.instruction}')
            self.table[id(symbol.instruction)] = symbol
        self.results: dict[int, typing.Any] = {}
        self.calls: dict[int, int] = {}

    def malformed(self) -> typing.Optional[str]:
        """Well-formedness: arguments within the table."""
        for symbol in self.symbols:
            for arg in symbol.arguments:
                if id(arg) not in self.table:
                    return f'argument {arg} of {symbol.instruction} not in table'
        return None

    def value(self, instruction, stack=()):
        key = id(instruction)
        if key in self.results:
            return self.results[key]
        if key in stack:
            raise RecursionError(f'cyclic table at {instruction}')
        symbol = self.table[key]
        args = [self.value(a, stack + (key,)) for a in symbol.arguments]
        self.calls[key] = self.calls.get(key, 0) + 1
        if self.entry is not None and not args and hasattr(symbol.instruction, 'builder'):
            args = [self.entry]
        result = symbol.instruction(*args)
        self.results[key] = result
        return result

    def run(self):
        for symbol in self.symbols:
            self.value(symbol.instruction)
        return self
