"""C11 - driver: executes construction calls on the real forml graph API, reads the real state back and compares every
prefix with the abstract model (vlib.c11_model).  Call vocabulary (JSON lists, nodes/segments/trunks by creation index):

  ['worker', stateful, szin, szout]   ['future', n]   ['fork', node]
  ['sub', dst, inport, src, outport]              dst[inport].subscribe(src[outport])
  ['pub', src, outport, dst, port]                src[outport].publish(dst, port)      port = ['A', i] | ['T'] | ['L']
  ['train', worker, tsrc, tport, lsrc, lport]     worker.train(tsrc[tport], lsrc[lport])
  ['segment', head, tail|None]   ['extend', seg, right, tail|None]   ['copy', seg]   ['seg_sub', seg, pubref]
  ['trunk', a, t, l]   ['trunk_extend', trunk, a, t, l]   ['compose', [trunk...]]
  ['release']                                      drop the exceptions held so far (finalizer schedule 'hold')
  right / a / t / l : None | ['n', node] | ['s', seg];   pubref : ['n', node, outport] | ['s', seg]
"""
import gc
import sys

from forml import flow
from forml.flow._graph import atomic, span
from forml.flow._graph import port as gport

from . import c11_model, symbolic
from .c11_model import L, T

SCHEDULES = ('prompt', 'gc-off', 'gc-each', 'hold')
_ACTIVE = None
_BUILDERS = {}


def install():
    """Constructor wrapper (tracks every node created while a case is active) + capture of copy mappings."""
    if getattr(atomic.Node, '_c11_wrapped', False):
        return
    original = atomic.Node.__init__

    def init(self, *args, **kwargs):
        original(self, *args, **kwargs)
        if _ACTIVE is not None:
            _ACTIVE.track(self)

    atomic.Node.__init__ = init
    atomic.Node._c11_wrapped = True
    copy = span.Traversal.copy

    def traced_copy(self, tail):
        result = copy(self, tail)
        if _ACTIVE is not None:
            _ACTIVE.mappings.append(result)
        return result

    span.Traversal.copy = traced_copy
    sys.unraisablehook = lambda *_: None  # finalizers of torn-down cases hit the cleared registry - harmless noise


def builder(stateful):
    if stateful not in _BUILDERS:
        _BUILDERS[stateful] = symbolic.builder('s' if stateful else 'm', stateful)
    return _BUILDERS[stateful]


def pkey(p):
    if isinstance(p, gport.Train):
        return T
    if isinstance(p, gport.Label):
        return L
    return ('A', int(p))


def pobj(key):
    key = tuple(key)
    if key == T:
        return gport.Train()
    if key == L:
        return gport.Label()
    return gport.Apply(key[1])


class Composable:
    """Minimal composable handing out a prebuilt trunk."""

    def __init__(self, trunk):
        self.trunk = trunk

    def expand(self):
        return self.trunk


class Real:
    """The real objects of one case."""

    def __init__(self):
        self.nodes = []
        self.ids = {}
        self.segs = []
        self.trunks = []
        self.held = []
        self.mappings = []

    def track(self, node):
        self.ids[id(node)] = len(self.nodes)
        self.nodes.append(node)

    def index(self, node):
        return self.ids.get(id(node), -1)

    def snapshot(self):
        """Ordered read-back of everything observable on every node created in the case."""
        snap = []
        for node in self.nodes:
            out = tuple(tuple((self.index(s.node), pkey(s.port)) for s in p) for p in node.output)
            if isinstance(node, atomic.Worker):
                snap.append(('W', out, frozenset(pkey(p) for p in node.input), bool(node.trained), bool(node.derived),
                             frozenset(self.index(m) for m in node.group)))
            else:
                regs = [(self.index(p._node), p._index, int(i)) for p, i in node._input.items()]  # pylint: disable=protected-access
                snap.append(('F', out, tuple(dict.fromkeys(regs))))  # the same publisher port registered twice is one link
        return snap

    @staticmethod
    def unordered(snap):
        result = []
        for entry in snap:
            out = tuple(frozenset(p) for p in entry[1])
            if entry[0] == 'W':
                result.append(('W', out) + entry[2:])
            else:
                result.append(('F', out, frozenset(entry[2])))
        return result

    # ------------------------------------------------------------------ call execution
    def ref(self, item):
        if item is None:
            return None
        return self.nodes[item[1]] if item[0] == 'n' else self.segs[item[1]]

    def execute(self, call):
        kind = call[0]
        nodes = self.nodes
        if kind == 'worker':
            return flow.Worker(builder(bool(call[1])), call[2], call[3])
        if kind == 'future':
            return flow.Future(call[1], call[1])
        if kind == 'fork':
            return nodes[call[1]].fork()
        if kind == 'sub':
            return nodes[call[1]][call[2]].subscribe(nodes[call[3]][call[4]])
        if kind == 'pub':
            return nodes[call[1]][call[2]].publish(nodes[call[3]], pobj(call[4]))
        if kind == 'train':
            return nodes[call[1]].train(nodes[call[2]][call[3]], nodes[call[4]][call[5]])
        if kind == 'segment':
            return flow.Segment(nodes[call[1]], None if call[2] is None else nodes[call[2]])
        if kind == 'extend':
            return self.segs[call[1]].extend(self.ref(call[2]), None if call[3] is None else nodes[call[3]])
        if kind == 'copy':
            return self.segs[call[1]].copy()
        if kind == 'seg_sub':
            ref = call[2]
            return self.segs[call[1]].subscribe(nodes[ref[1]][ref[2]] if ref[0] == 'n' else self.segs[ref[1]])
        if kind == 'trunk':
            return flow.Trunk(self.ref(call[1]), self.ref(call[2]), self.ref(call[3]))
        if kind == 'trunk_extend':
            return self.trunks[call[1]].extend(self.ref(call[2]), self.ref(call[3]), self.ref(call[4]))
        if kind == 'compose':
            return flow.Composition(*(Composable(self.trunks[k]) for k in call[1]))
        raise ValueError(f'unknown call {call}')

    def attempt(self, call, hold):
        """-> ('ok', result) | ('topo', message) | ('exc', type name, message)"""
        try:
            return 'ok', self.execute(call)
        except flow.TopologyError as err:
            if hold:
                self.held.append(err)
            return 'topo', str(err)[:80]
        except Exception as err:  # pylint: disable=broad-except
            if hold:
                self.held.append(err)
            return 'exc', type(err).__name__, str(err)[:80]


def diff_fields(left, right):
    """Which kinds of observable differ between two (unordered or ordered) snapshots."""
    names = {'W': ('', 'worker-output', 'worker-input', 'trained', 'derived', 'group'), 'F': ('', 'future-output', 'future-input')}
    found = []
    for a, b in zip(left, right):
        if a != b:
            for k in range(1, len(a)):
                if a[k] != b[k]:
                    found.append((names[a[0]][k]))
    if len(left) != len(right):
        found.append('node-count')
    return sorted(set(found))


def diff_count(left, right):
    return sum(1 for a, b in zip(left, right) for k in range(1, len(a)) if a[k] != b[k]) + abs(len(left) - len(right))


def real_invariants(snap):
    """The invariant list of the property evaluated on the read-back alone (no model)."""
    bad = []
    pubs = {}
    for n, entry in enumerate(snap):
        if entry[0] != 'W':
            continue
        for oi, subs in enumerate(entry[1]):
            for target in subs:
                pubs.setdefault(target, set()).add((n, oi))
                if target[0] == n:
                    bad.append('self-feed')
        ports = entry[2]
        if any(p[0] == 'A' for p in ports) and ports & {T, L}:
            bad.append('apply-train-mix')
        if entry[3] and any(entry[1]):
            bad.append('trained-publishes')
        if sum(1 for m in entry[5] if m >= 0 and snap[m][3]) > 1:
            bad.append('group-two-trained')
    if any(len(v) > 1 for v in pubs.values()):
        bad.append('two-publishers')
    for target in pubs:
        if target[0] >= 0 and target[1] not in snap[target[0]][2]:
            bad.append('edge-without-registration')
    return sorted(set(bad))


def teardown():
    """Between independent cases (nothing of the previous case is used any more)."""
    global _ACTIVE
    _ACTIVE = None
    gport.Subscription._PORTS.clear()  # pylint: disable=protected-access


def activate(real):
    global _ACTIVE
    _ACTIVE = real


class Case:
    """One call sequence against model + real graph.  ``report(key, what)`` is called at the first violation."""

    def __init__(self, schedule='prompt'):
        install()
        teardown()
        self.schedule = schedule
        self.model = c11_model.Model()
        self.real = Real()
        activate(self.real)
        self.calls = []
        self.stats = {'ok': 0, 'topo': 0, 'forbidden_refused': 0, 'open_refused': 0, 'skipped': 0, 'wired': 0, 'futures_used': 0}
        self.failed = None
        self.messages = set()
        if schedule == 'gc-off':
            gc.disable()

    def close(self):
        self.real.held.clear()
        if self.schedule == 'gc-off':
            gc.enable()
        teardown()

    # ------------------------------------------------------------------ helpers
    def fail(self, key, what):
        registry = gport.Subscription._PORTS  # pylint: disable=protected-access
        ghosts = [k for k in list(registry) if isinstance(k, atomic.Future)]
        family = key.split('-')[0]
        if ghosts and (
            (family in ('state', 'failed', 'invariant', 'nonmutating', 'copy', 'release') and 'worker-input' in what)
            or (family in ('accepted', 'partial') and any(
                isinstance(n, atomic.Worker) and any(g == n for g in ghosts) for n in self.real.nodes))
        ):
            # Node.__eq__ makes a Future equal to any worker with the same outputs: once a Future is a registry key
            # (only a refused future[i].publish(future, ...) does that) workers resolve to the Future's entry
            key, what = 'registry-aliased-worker-to-future', what + ' [a Future is a key of Subscription._PORTS]'
        self.failed = (key, what)
        return False

    def valid(self, call):
        """All node / segment / trunk indices of the call exist (replayed or permuted sequences may refer to objects a
        refused earlier call never created)."""
        model = self.model
        n, nsegs, ntrunks = len(model.kind), len(model.segs), len(model.trunks)

        def ref(item):
            return item is None or (item[1] < (n if item[0] == 'n' else nsegs))

        kind = call[0]
        if kind in ('worker', 'future', 'release'):
            return True
        if kind == 'fork':
            return call[1] < n
        if kind == 'sub':
            return call[1] < n and call[3] < n and call[2] < model.szin[call[1]] and call[4] < model.szout[call[3]]
        if kind == 'pub':
            return call[1] < n and call[3] < n and call[2] < model.szout[call[1]] and model.szin[call[3]] > 0
        if kind == 'train':
            return all(c < n for c in (call[1], call[2], call[4])) and model.kind[call[1]] == 'W' and (
                call[3] < model.szout[call[2]] and call[5] < model.szout[call[4]])
        if kind == 'segment':
            return call[1] < n and (call[2] is None or call[2] < n)
        if kind == 'extend':
            return call[1] < nsegs and ref(call[2]) and (call[3] is None or call[3] < n)
        if kind == 'copy':
            return call[1] < nsegs
        if kind == 'seg_sub':
            return call[1] < nsegs and ref(call[2]) and (call[2][0] == 's' or call[2][2] < model.szout[call[2][1]])
        if kind == 'trunk':
            return all(ref(r) for r in call[1:4])
        if kind == 'trunk_extend':
            return call[1] < ntrunks and all(ref(r) for r in call[2:5])
        if kind == 'compose':
            return bool(call[1]) and all(k < ntrunks for k in call[1])
        return False

    def adopt_nodes(self):
        """Bring nodes created by the last call (forks, copies, default placeholders) into the model."""
        model, real = self.model, self.real
        fresh = []
        for idx in range(len(model.kind), len(real.nodes)):
            node = real.nodes[idx]
            if isinstance(node, atomic.Worker):
                mates = [real.index(m) for m in node.group if m is not node]
                mates = [m for m in mates if 0 <= m < len(model.kind)]
                group = model.group[min(mates)] if mates else None
                model.add_worker(bool(node.stateful), node.szin, node.szout, group)
            else:
                model.add_future(node.szin, node.szout)
            fresh.append(idx)
        return fresh

    def add_seg(self, seg):
        self.real.segs.append(seg)
        self.model.segs.append((self.real.index(seg[0]), self.real.index(seg[1])))
        return len(self.model.segs) - 1

    def add_trunk(self, trunk):
        self.real.trunks.append(trunk)
        self.model.trunks.append(tuple(self.add_seg(s) for s in trunk))

    def route(self, links):
        kind = self.model.kind
        if any(s == d and kind[s] == 'F' for s, _, d, _ in links):
            return 'future-self'
        if any(kind[s] == 'F' or kind[d] == 'F' for s, _, d, _ in links):
            return 'via-future'
        return 'direct'

    def seg_head_link(self, source, seg):
        """Link made by seg.subscribe(source port): (src, outport) -> head[Apply 0]."""
        return (source[0], source[1], self.model.segs[seg][0], ('A', 0))

    def steps_of(self, call):
        """Primitive link steps of a mutating call, in the order forml performs them (None = not a link call)."""
        kind, model = call[0], self.model
        if kind == 'sub':
            return [(call[3], call[4], call[1], ('A', call[2]))]
        if kind == 'pub':
            return [(call[1], call[2], call[3], tuple(call[4]))]
        if kind == 'train':
            return [(call[2], call[3], call[1], T), (call[4], call[5], call[1], L)]
        if kind == 'seg_sub':
            ref = call[2]
            source = (ref[1], ref[2]) if ref[0] == 'n' else (model.segs[ref[1]][1], 0)
            return [self.seg_head_link(source, call[1])]
        if kind == 'extend':
            if call[2] is None:
                return []
            head = call[2][1] if call[2][0] == 'n' else model.segs[call[2][1]][0]
            return [(model.segs[call[1]][1], 0, head, ('A', 0))]
        if kind == 'trunk_extend':
            steps = []
            for seg, right in zip(model.trunks[call[1]], call[2:5]):
                if right is not None:
                    head = right[1] if right[0] == 'n' else model.segs[right[1]][0]
                    steps.append((model.segs[seg][1], 0, head, ('A', 0)))
            return steps
        if kind == 'compose':
            steps = []
            tails = [model.segs[s][1] for s in model.trunks[call[1][0]]]
            for k in call[1][1:]:
                for mode, seg in enumerate(model.trunks[k]):
                    steps.append((tails[mode], 0, model.segs[seg][0], ('A', 0)))
                    tails[mode] = model.segs[seg][1]
            return steps
        return None

    def plan(self, call):
        """-> (link steps | None, model link sets after each step, index of the first forbidden step | None, broken
        invariants, unspecified?)"""
        model = self.model
        steps = self.steps_of(call)
        if steps is None:
            return None, None, None, [], False
        states = [set(model.links)]
        forbidden_at = None
        why = []
        for j, link in enumerate(steps):
            nxt = states[-1] | {link}
            if model.future_cycle(nxt):
                return steps, None, None, [], True
            if forbidden_at is None:
                why = model.violations(nxt)
                if why:
                    forbidden_at = j
            states.append(nxt)
        if call[0] == 'train' and forbidden_at is None:
            derived = model.derive()
            if any(model.trained(derived, m) for m in model.members(model.group[call[1]])):
                forbidden_at, why = 0, ['group-two-trained']
        return steps, states, forbidden_at, why, False

    # ------------------------------------------------------------------ the step
    def step(self, call):
        """Execute one call; False = stop the case (a violation, if any, is in self.failed)."""
        call = list(call)
        model, real = self.model, self.real
        kind = call[0]
        if kind == 'release':
            self.calls.append(call)
            before = real.snapshot()
            real.held.clear()
            gc.collect()
            after = real.snapshot()
            if after != before:
                fields = diff_fields(before, after)
                lost = any(a[0] == 'W' and a[2] - b[2] for a, b in zip(before, after))
                key = 'finalizer-unregisters-live-subscription' if lost else 'release-changed-graph'
                return self.fail(key, f'releasing held exceptions changed {fields} (stale Subscription finalizers)')
            return True
        if not self.valid(call):
            self.stats['skipped'] += 1
            return True
        steps, states, forbidden_at, why, unspecified = self.plan(call)
        if unspecified:
            self.stats['skipped'] += 1
            return True
        self.calls.append(call)
        before = real.snapshot()
        nmaps = len(real.mappings)
        outcome = real.attempt(call, self.schedule == 'hold')
        if self.schedule == 'gc-each':
            gc.collect()
        fresh = self.adopt_nodes()
        after = real.snapshot()
        if any(i < 0 for e in after for p in e[1] for i, _ in p):
            return self.fail('untracked-node', f'{call} connected a node the constructor wrapper never saw')
        status = outcome[0]
        if status == 'exc':
            self.stats['crashed'] = self.stats.get('crashed', 0) + 1
            self.messages.add('!' + outcome[1])
            status = 'refused'
        elif status == 'topo':
            self.stats['topo'] += 1
            self.messages.add(outcome[1].split(' near ')[0].split(' - ')[0].split(':')[0].split('[')[0].split('(')[0][:40])
            status = 'refused'
        else:
            self.stats['ok'] += 1
        old_after = after[: len(before)]
        result = outcome[1] if status == 'ok' else None
        if status == 'ok':
            if kind in ('segment', 'extend', 'copy'):
                self.add_seg(result)
            elif kind in ('trunk', 'trunk_extend'):
                self.add_trunk(result)
            elif kind == 'compose':
                self.add_seg(result.apply)
                self.add_seg(result.train)
        # ---------------- what the call may have done to the links
        if steps:
            verdict = self.judge_links(call, steps, states, forbidden_at, why, status, outcome, before, after)
            if verdict is not True:
                return verdict
        elif kind == 'copy':
            return self.judge_copy(call, status, before, old_after, after, fresh, nmaps)
        elif self.groupless(old_after) != self.groupless(before):
            return self.fail(f'nonmutating-call-changed-graph-{kind}', f'{call} ({status}) changed {diff_fields(before, old_after)}')
        # ---------------- tracing clauses
        if kind in ('segment', 'extend') and status == 'ok':
            head = model.segs[call[1]][0] if kind == 'extend' else call[1]
            tail = call[3] if kind == 'extend' else call[2]
            if kind == 'extend' and tail is None and call[2] is not None:
                tail = model.segs[-1][1]
            if kind == 'extend' and call[2] is None and tail is None:
                pass  # pure retrace from the old tail: the part up to the old tail was traced before
            elif model.cycle_must_raise(head, tail):
                where = 'autotrace' if tail is None else 'explicit-tail'
                return self.fail(f'cycle-not-rejected-{where}', f'{call} traced a segment containing a cycle without error')
        if kind == 'compose' and status == 'ok':
            succ = model.mapper_succ()
            for mode, seg in ((0, model.segs[-2]), (1, model.segs[-1])):
                first = model.segs[model.trunks[call[1][0]][mode]][0]
                if model.kind[first] == 'F':
                    if succ[first]:
                        return self.fail('composition-accepted-placeholder-head',
                                         f'{call}: {("apply", "train")[mode]} segment starts at a placeholder with subscribers yet was composed')
                    self.stats['trailing_placeholder'] = self.stats.get('trailing_placeholder', 0) + 1
                elif model.kind[seg[1]] == 'F':
                    self.stats['trailing_placeholder'] = self.stats.get('trailing_placeholder', 0) + 1
        return self.compare(call, status, after)

    def compare(self, call, status, after):
        expected = self.model.state()
        observed = self.real.unordered(after)
        if expected != observed:
            fields = diff_fields(expected, observed)
            return self.fail(f'state-mismatch-{call[0]}-' + '+'.join(fields),
                             f'after {call} ({status}) real graph differs from model in {fields}')
        broken = real_invariants(after)
        if broken:
            return self.fail('invariant-' + '+'.join(broken), f'after {call} ({status}) the read-back graph violates {broken}')
        return True

    @staticmethod
    def groupless(snap):
        """Snapshot ignoring group growth / derived (forks and copies legitimately join groups)."""
        return [e[:4] if e[0] == 'W' else e for e in snap]

    def judge_links(self, call, steps, states, forbidden_at, why, status, outcome, before, after):
        model, real = self.model, self.real
        kind = call[0]
        observed = real.unordered(after)
        primitive = kind in ('sub', 'pub', 'seg_sub')
        label = 'link' if primitive else kind.replace('_', '-')
        touches = any(model.kind[s] == 'F' or model.kind[d] == 'F' for s, _, d, _ in steps)
        if status == 'ok':
            if forbidden_at is not None:
                culprit = steps[forbidden_at]
                route = self.route([culprit])
                if why[0] == 'group-two-trained':  # one mechanism whatever the route: who checks the fork group
                    route = 'train' if kind == 'train' else 'publish'
                return self.fail(f'accepted-{why[0]}-{route}',
                                 f'{call} succeeded although link {culprit} breaks {why}')
            model.links = states[-1]
            self.stats['wired'] += len(steps)
            if touches:
                self.stats['futures_used'] += 1
            return True
        # ---------------- refused
        if forbidden_at is not None:
            self.stats['forbidden_refused'] += 1
        else:
            self.stats['open_refused'] += 1
        limit = 0 if primitive else (forbidden_at if forbidden_at is not None else len(steps))
        candidates = [model.state(state) for state in (states[:1] if primitive else states)]
        match = next((j for j, state in enumerate(candidates) if state == observed), None)
        if match is not None and match > limit:
            culprit = steps[forbidden_at]  # the forbidden link was made, a later step of the composite call raised
            return self.fail(f'accepted-{why[0]}-{self.route([culprit])}',
                             f'{call} made link {culprit} although it breaks {why} (a later step raised {outcome[1]!r})')
        everything = candidates
        candidates = candidates[: limit + 1]
        best = min(range(len(everything)), key=lambda j: (diff_count(everything[j], observed), j))
        if forbidden_at is not None and outcome[0] == 'exc' and (
            primitive or forbidden_at == len(steps) - 1 or best <= limit
        ):  # the forbidden link itself crashed (otherwise: it was made and a later step of the composite call crashed)
            culprit = steps[forbidden_at]
            return self.fail(f'crashed-{why[0]}-{self.route([culprit])}',
                             f'{call} (link {culprit} breaks {why}) raised {outcome[1]} instead of the topology error')
        if match is None:
            fields = diff_fields(min(candidates, key=lambda state: diff_count(state, observed)), observed)
            if touches and all(f.startswith('future') for f in fields):
                key = 'failed-call-left-future-residue'
            elif touches and set(fields) <= {'future-input', 'future-output', 'worker-output'}:
                key = 'failed-call-partial-collapse'
            elif forbidden_at is not None and forbidden_at < len(steps) - 1 and best > limit:
                culprit = steps[forbidden_at]
                return self.fail(f'accepted-{why[0]}-{self.route([culprit])}',
                                 f'{call} made link {culprit} although it breaks {why} (a later step raised {outcome[1]!r})')
            else:
                key = f'failed-{label}-changed-' + '+'.join(fields)
            return self.fail(key, f'{call} raised {outcome[1]!r} but changed {fields}')
        if match > 0 and match == forbidden_at:  # (a smaller prefix means an earlier open step ended the call)
            return self.fail(f'partial-{label}', f'{call} raised {outcome[1]!r} (link {steps[forbidden_at]} breaks {why}) '
                                                f'but the first {match} link(s) stayed')
        model.links = states[match]
        if match == 0 and after != before:
            # a fully refused call must leave even the order of everything untouched
            return self.fail(f'failed-{label}-reordered', f'{call} raised but changed {diff_fields(before, after)} (ordering)')
        if match > 0:
            self.stats['wired'] += match
        return True

    def judge_copy(self, call, status, before, old_after, after, fresh, nmaps):
        """The property says nothing about what a copy looks like: originals must be untouched, the invariants must hold
        over originals + copies; the new nodes are adopted into the model from the read-back.  (Mirror-of-the-original
        is only counted.)  A refused copy leaves unmodellable half-wired forks behind: the case ends there."""
        model, real = self.model, self.real
        if self.groupless(old_after) != self.groupless(before):
            return self.fail('copy-changed-original', f'{call} ({status}) changed {diff_fields(before, old_after)} of existing nodes')
        broken = real_invariants(after)
        if broken:
            return self.fail('invariant-' + '+'.join(broken), f'after {call} ({status}) the read-back graph violates {broken}')
        if status != 'ok':
            self.stats['copy_refused'] = self.stats.get('copy_refused', 0) + 1
            return False
        edges = set()
        for idx in fresh:
            for oi, subs in enumerate(after[idx][1]):
                for dst, p in subs:
                    edges.add((idx, oi, dst, p))
        adopted = set(model.links)
        for idx in fresh:  # placeholders first: registrations and what they publish
            if after[idx][0] == 'F':
                adopted |= {(src, oi, idx, ('A', i)) for src, oi, i in after[idx][2]}
                adopted |= {e for e in edges if e[0] == idx}
        derived = model.derive(adopted)
        for idx in fresh:  # then the worker edges not already explained through a placeholder
            if after[idx][0] == 'W':
                adopted |= {e for e in edges if e[0] == idx and (e[2], e[3]) not in derived['out'][(idx, e[1])]}
        if len(real.mappings) == nmaps + 1:
            mapping = {real.index(k): real.index(v) for k, v in real.mappings[-1].items()}
            derived = model.derive()
            wanted = set()
            for o, c in mapping.items():
                for oi in range(model.szout[o]):
                    for d, p in derived['out'][(o, oi)]:
                        if d in mapping and p[0] == 'A' and not model.trained(derived, d):
                            wanted.add((c, oi, mapping[d], p))
            name = 'copies_mirrored' if wanted == edges else 'copies_not_mirrored'
            self.stats[name] = self.stats.get(name, 0) + 1
        model.links = adopted
        self.stats['copies_checked'] = self.stats.get('copies_checked', 0) + 1
        if model.state() != real.unordered(after):
            self.stats['copy_unmodelled'] = self.stats.get('copy_unmodelled', 0) + 1
            return False
        return True
