"""Fresh-interpreter half of check C13: loads cloudpickled bundles (builder, apply functor, trained actor, train functor)
produced by another process (other hash seed) and reports what they compute here.  No oracle in this file."""
import pickle
import sys
import warnings


def attempt(function, *args, **kwargs):
    try:
        return ('ok', function(*args, **kwargs))
    except Exception as err:  # pylint: disable=broad-except
        return ('raise', type(err).__name__, str(err)[:300])


def main(source: str, target: str) -> int:
    warnings.filterwarnings('ignore')
    import logging

    logging.disable(logging.CRITICAL)
    import cloudpickle  # noqa: F401  pylint: disable=unused-import
    import forml  # noqa: F401  pylint: disable=unused-import

    with open(source, 'rb') as fd:
        jobs = pickle.load(fd)
    results = []
    for job in jobs:
        loaded = attempt(pickle.loads, job['blob'])
        if loaded[0] != 'ok':
            results.append({'load': loaded})
            continue
        bundle, state, inputs = loaded[1], job['state'], job['inputs']
        out = {'stateful': attempt(bundle['builder'].actor.is_stateful)}
        out['actor'] = [attempt(bundle['actor'].apply, *x) for x in inputs]
        if job['raw']:
            fresh = attempt(bundle['builder'])
            if fresh[0] == 'ok':
                preset = attempt(fresh[1].set_state, state)
                out['builder'] = [attempt(fresh[1].apply, *x) if preset[0] == 'ok' else preset for x in inputs]
            else:
                out['builder'] = [fresh for _ in inputs]
        out['functor'] = [attempt(bundle['functor'].execute, state, *x) for x in inputs]
        if job['more']:
            step = ('ok', state)
            for features, labels in job['more']:
                step = attempt(bundle['trainer'].execute, step[1], features, labels)
                if step[0] != 'ok':
                    break
            out['trainer'] = [attempt(bundle['functor'].execute, step[1], *x) if step[0] == 'ok' else step for x in inputs]
        results.append(out)
    with open(target + '.tmp', 'wb') as fd:
        pickle.dump(results, fd)
    import os

    os.replace(target + '.tmp', target)
    return 0


if __name__ == '__main__':
    sys.exit(main(sys.argv[1], sys.argv[2]))
