"""Regenerate MANIFEST.json from the per-check metadata (checks/*.py: PROPERTY, LEVEL, MANIFEST dict) and validate it."""
import importlib
import json
import os
import sys

HERE = os.path.dirname(os.path.dirname(os.path.abspath(__file__)))
sys.path.insert(0, HERE)

NOT_APPLICABLE = {}  # property id -> reason (kept current by hand)
READY = ['C01', 'C02', 'C03', 'C04', 'C05', 'C06', 'C07', 'C08', 'C09', 'C10', 'C11', 'C12', 'C13', 'C14', 'C15', 'C16', 'C17', 'C18', 'C19', 'C20']  # checks validated on the unchanged tree (seed sweep + mutants) - only these are claimed


def main():
    props = [json.loads(line)['id'] for line in open(os.path.join(HERE, 'properties.jsonl'), encoding='utf-8')]
    checks = []
    missing = []
    for pid in props:
        path = os.path.join(HERE, 'checks', pid.lower() + '.py')
        if not os.path.exists(path) or pid in NOT_APPLICABLE or pid not in READY:
            missing.append(pid)
            continue
        mod = importlib.import_module('checks.' + pid.lower())
        meta = mod.MANIFEST
        checks.append({
            'property_id': pid,
            'quick_cmd': f'./check {pid} --tier quick',
            'thorough_cmd': f'./check {pid} --tier thorough',
            'evidence_file': f'/verif/evidence/{pid}.json',
            'replay_cmd_template': f'./check {pid} --replay {{path}}',
            'engine': 'runtime-monitor',
            'level_claimed': {'category': mod.LEVEL, 'text': meta['text'], 'design_ref': meta['design_ref']},
            'level_note': meta['note'],
            'technique': meta['technique'],
        })
    manifest = {
        'version': 1,
        'setup_cmd': '/venv/bin/python tools/selfcheck.py',
        'hooks': {
            'guard': 'FORML_VERIF',
            'enable': 'no source hooks: all instrumentation attaches from outside (monkeypatched wrappers, sys.monitoring, '
                      'sys.addaudithook); checks import forml from $VERIF_REPO (default /repo) working tree',
            'baseline_off_cmd': 'cd /repo && /venv/bin/python -m pytest -ra -q -p no:cacheprovider --timeout=900 '
                                '--continue-on-collection-errors',
            'source_commits': [],
            'add_only': True,
        },
        'engines': [{
            'name': 'runtime-monitor', 'path': '/verif/check',
            'serves_properties': [c['property_id'] for c in checks],
            'kind_free_text': 'runtime monitoring of the real forml code under generated / hostile / fault-injected '
                              'workloads; oracles are executable reference models over observed events',
        }],
        'checks': checks,
        'notes': 'Verdicts are three-valued (exit 0 held / 1 violated with VIOLATION line / 2 inconclusive). Known '
                 'findings live in /verif/known_findings.json keyed by mechanism. See DESIGN.md.',
        'not_applicable': [
            {'property_id': pid, 'reason': NOT_APPLICABLE.get(pid, 'check not built yet (work in progress) - not claimed')}
            for pid in missing
        ],
    }
    with open(os.path.join(HERE, 'MANIFEST.json'), 'w', encoding='utf-8') as fd:
        json.dump(manifest, fd, indent=1)
    try:
        import jsonschema
        jsonschema.validate(manifest, json.load(open('/root/.vp/MANIFEST.schema.json', encoding='utf-8')))
        print('MANIFEST valid;', len(checks), 'checks;', len(missing), 'not claimed')
    except ImportError:
        print('jsonschema unavailable - not validated')


if __name__ == '__main__':
    main()
