"""Print the prompt for a fresh break-seeding sub-agent: only the property text and its own worktree."""
import json
import sys

pid = sys.argv[1]
work = sys.argv[2]
avoid = sys.argv[3] if len(sys.argv) > 3 else ''
props = {json.loads(line)['id']: json.loads(line) for line in open('/verif/properties.jsonl', encoding='utf-8')}
p = props[pid]
print(f"""You are testing how well a Python code base protects one of its semantic properties. You get your own git worktree of
the repository formlio/forml at {work} (a python ML lifecycle framework). Work ONLY inside {work}; never read or write
/verif or /repo (other people's work lives there and must stay independent of yours). Use the interpreter /venv/bin/python
and ALWAYS run it with PYTHONPATH={work} and from inside {work}, so that `import forml` picks up your copy (check with
`cd {work} && PYTHONPATH={work} /venv/bin/python -c "import forml; print(forml.__file__)"`). No network is available.
Importing forml prints deprecation warnings on stderr - ignore them.

THE PROPERTY ({pid}: {p['title']}):
{p['statement']}
It is quantified over: {p['quantifier']['text']}
Code that is meant to make it hold: {', '.join(p['anchors']['files'])}.

YOUR TASK: make ONE small, realistic change to the forml source under {work}/forml (never to tests) that BREAKS this
property while the package still imports and the EXISTING test suite still passes. The change must need something
specific to manifest - a particular interleaving, a crash or fault at a particular point, a multi-step sequence of
operations, an unusual input or configuration, or two cooperating sites that each look fine alone - NOT something that
ordinary use or any existing test would expose at once. Think like a plausible regression a maintainer could introduce
(an off-by-one on a rare path, a cache key that misses a component, a lost update, a swapped argument that only matters
for asymmetric shapes, a check moved after the side effect, ...). Prefer subtle over blunt.
{('A previous, independent attempt already did this: ' + avoid + ' - choose a DIFFERENT clause of the property and a different mechanism / code location.') if avoid else ''}

Steps:
1. Read the relevant code and the existing tests under {work}/tests for the files you plan to touch.
2. Make the change. Run the related test directories:
   `cd {work} && PYTHONPATH={work} /venv/bin/python -m pytest -q -p no:cacheprovider --timeout=900 <test dirs>`;
   then run the full suite once (about 10-20 minutes, in the background if you like):
   `cd {work} && PYTHONPATH={work} /venv/bin/python -m pytest -q -p no:cacheprovider --timeout=900 --continue-on-collection-errors > {work}/SEEDED/fullsuite.log 2>&1`.
   About 25 tests fail even on the unchanged tree in this environment (pandas 3 read_json, spark, mlflow, distributed
   dask, rest gateway, test_importer, test_codec, service dispatch...). To tell which failures are yours, compare against
   the unchanged tree for the SAME test ids. NEVER use `git stash` (it is shared between worktrees of other people): to run
   without your change do `git diff -- forml > SEEDED/patch.diff; git apply -R SEEDED/patch.diff; <run>; git apply
   SEEDED/patch.diff`. Your change must not add failures.
3. Write a demonstration {work}/SEEDED/demo.py: a standalone script (run as
   `cd {work} && PYTHONPATH={work} /venv/bin/python SEEDED/demo.py`) that exercises the public behaviour the property talks
   about, prints what it observed, and exits with status 1 (printing a line starting with FAIL) when the property is
   violated and 0 (printing PASS) when it holds. It must FAIL with your change and PASS without it (verify both, using
   `git apply -R SEEDED/patch.diff` / `git apply SEEDED/patch.diff`, never git stash). It must finish in under 2 minutes and clean up anything it creates under /tmp.
4. Save `git diff -- forml > {work}/SEEDED/patch.diff` and write {work}/SEEDED/notes.md: which clause of the property breaks,
   what exactly is needed for it to manifest, why existing tests do not notice, which tests you ran and their outcome.
5. Do NOT commit. Leave the change applied in the worktree. Final answer: <= 15 lines summarising the change, what it
   needs to manifest, demo outcome with/without the change, and test results.""")
