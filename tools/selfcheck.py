"""setup_cmd: nothing to build (pure python, everything needed is already in /venv) - verify the toolchain."""
import importlib
import os
import sys

sys.path.insert(0, os.environ.get('VERIF_REPO', '/repo'))
import warnings
warnings.filterwarnings('ignore')
for name in ('forml', 'dask', 'sqlalchemy', 'duckdb', 'pandas', 'cloudpickle', 'toml'):
    importlib.import_module(name)
assert sys.version_info >= (3, 12), 'sys.monitoring needs 3.12'
print('selfcheck ok')
