"""Render docs/seeded.md from seeded/*/meta.json."""
import glob
import json
import os

HERE = os.path.dirname(os.path.dirname(os.path.abspath(__file__)))
lines = ['# Independently seeded breaks', '',
         'Each was written by a fresh sub-agent that saw only the property text and its own worktree; confirmed by the lead',
         '(demo passes on the clean tree / fails with the change; repository suite unchanged) and run against the check.', '',
         'Rounds 2+ were told what the earlier rounds had changed and asked for another clause and mechanism.  "first run" says whether',
         'the check as it was when the break arrived reported it; the quick-tier column is the current result (tools/seedcheck.sh), and',
         'tools/selftest.py replays every patch as a mutant (docs/mutants.md, ids seeded-CNN[-k]).', '',
         '| id | round | files changed | what breaks | what it needs to manifest | suite | first run | quick tier now |', '|---|---|---|---|---|---|---|---|']
for path in sorted(glob.glob(os.path.join(HERE, 'seeded', '*', 'meta.json'))):
    m = json.load(open(path, encoding='utf-8'))
    def tier(name):
        r = m['check_result'].get(name)
        return '-' if not r else f"{r['verdict']} ({', '.join(r['mechanisms'][:3])})"
    suite = (m['confirmed_by_lead'].get('existing_suite_with_change') or ['not run'])[-1]
    ident = os.path.basename(os.path.dirname(path))
    first = 'caught' if m.get('caught_at_first_run', True) else 'missed -> check strengthened'
    lines.append(f"| {ident} | {m.get('round', 1)} | {', '.join(m['files_changed'])} | {m.get('breaks') or ''} | {m.get('needs_to_manifest') or ''} | {suite} | {first} | {tier('quick')} |")
with open(os.path.join(HERE, 'docs', 'seeded.md'), 'w', encoding='utf-8') as fd:
    fd.write('\n'.join(lines) + '\n')
print('\n'.join(lines[-12:]))
