"""Mutation self-test of the monitors: apply each deliberate property-breaking edit (mutants/<PID>.json) to a scratch
copy of the repository, run the property's quick check against it (VERIF_REPO) and require a VIOLATION.

Usage: python tools/selftest.py [PID ...] [--only mutant-id] [--tier quick] [--keep-going]
mutants/<PID>.json: [{"id", "file", "old", "new", "note"}...]  (exact single string replacement in the file) or
{"id", "patch": "seeded/<dir>/patch.diff"} (an independently seeded break, applied with patch -p1)
"""
import argparse
import json
import os
import shutil
import subprocess
import sys
import tempfile
import concurrent.futures

HERE = os.path.dirname(os.path.dirname(os.path.abspath(__file__)))
REPO = os.environ.get('VERIF_REPO', '/repo')


def run_mutant(pid, mutant, tier):
    scratch = tempfile.mkdtemp(prefix=f'mut-{pid}-')
    try:
        shutil.copytree(os.path.join(REPO, 'forml'), os.path.join(scratch, 'forml'), ignore=shutil.ignore_patterns('__pycache__'))
        if 'patch' in mutant:  # an independently seeded break kept under seeded/<id>/patch.diff
            done = subprocess.run(['patch', '-p1', '-s', '-d', scratch, '-i', os.path.join(HERE, mutant['patch'])], capture_output=True,
                                  text=True, check=False)
            if done.returncode:
                return mutant['id'], 'BROKEN-MUTANT', f"patch does not apply: {done.stdout.strip()[:120]}"
        for edit in ([] if 'patch' in mutant else mutant.get('edits', [mutant])):
            path = os.path.join(scratch, edit['file'])
            source = open(path, encoding='utf-8').read()
            if source.count(edit['old']) != 1:
                return mutant['id'], 'BROKEN-MUTANT', f"'old' occurs {source.count(edit['old'])}x in {edit['file']}"
            open(path, 'w', encoding='utf-8').write(source.replace(edit['old'], edit['new']))
        env = dict(os.environ, VERIF_REPO=scratch, VERIF_JOBS=os.environ.get('VERIF_MUT_JOBS', '4'))
        proc = subprocess.run([os.path.join(HERE, 'check'), pid, '--tier', tier, '--evidence-dir', scratch], env=env, capture_output=True,
                              text=True, timeout=3600, check=False)
        lines = [l for l in proc.stdout.splitlines() if l.startswith(('VIOLATION', '  mechanism', 'INCONCLUSIVE'))]
        status = {0: 'MISSED', 1: 'CAUGHT', 2: 'INCONCLUSIVE'}.get(proc.returncode, f'rc={proc.returncode}')
        return mutant['id'], status, ' | '.join(l.strip()[:160] for l in lines[:4])
    finally:
        shutil.rmtree(scratch, ignore_errors=True)


def main():
    parser = argparse.ArgumentParser()
    parser.add_argument('pids', nargs='*')
    parser.add_argument('--only')
    parser.add_argument('--tier', default='quick')
    parser.add_argument('--jobs', type=int, default=4)
    parser.add_argument('--markdown', action='store_true', help='record results in docs/selftest_results.json + docs/mutants.md')
    args = parser.parse_args()
    pids = [p.upper() for p in args.pids] or sorted(f[:-5] for f in os.listdir(os.path.join(HERE, 'mutants')) if f.endswith('.json'))
    jobs = []
    for pid in pids:
        for mutant in json.load(open(os.path.join(HERE, 'mutants', pid + '.json'), encoding='utf-8')):
            if args.only and mutant['id'] not in args.only.split(','):
                continue
            jobs.append((pid, mutant))
    missed = 0
    results_path = os.path.join(HERE, 'docs', 'selftest_results.json')
    results = json.load(open(results_path, encoding='utf-8')) if os.path.exists(results_path) else {}
    with concurrent.futures.ThreadPoolExecutor(max_workers=args.jobs) as pool:
        for (pid, mutant), (mid, status, detail) in zip(jobs, pool.map(lambda j: run_mutant(j[0], j[1], args.tier), jobs)):
            print(f'{pid} {mid:40s} {status:12s} {detail}', flush=True)
            missed += status != 'CAUGHT'
            import re

            if 'patch' in mutant:
                text = open(os.path.join(HERE, mutant['patch']), encoding='utf-8').read()
                files = sorted(set(re.findall(r'^\+\+\+ b/(\S+)', text, re.M)))
            else:
                files = sorted({e['file'] for e in mutant.get('edits', [mutant])})
            results.setdefault(pid, {})[mid] = {'status': status, 'tier': args.tier, 'files': files,
                                                'mechanisms': sorted({m.rstrip(':') for m in re.findall(r'mechanism=([\w:+.-]+)', detail)})[:4]}
    if args.markdown:
        os.makedirs(os.path.join(HERE, 'docs'), exist_ok=True)
        with open(results_path, 'w', encoding='utf-8') as fd:
            json.dump(results, fd, indent=1, sort_keys=True)
        lines = ['# Deliberate breaks (mutants/CNN.json) against the quick tier', '',
                 'Regenerate with `python tools/selftest.py --markdown [PID ...]`. Each mutant is applied alone to a scratch copy of the',
                 'tree; CAUGHT = the check exits 1 with a VIOLATION line.', '',
                 '| property | mutant | file | result | mechanism keys reported |', '|---|---|---|---|---|']
        for pid in sorted(results):
            for mid, r in sorted(results[pid].items()):
                lines.append(f"| {pid} | {mid} | {', '.join(r['files'])} | {r['status']} | {', '.join(r['mechanisms'])} |")
        with open(os.path.join(HERE, 'docs', 'mutants.md'), 'w', encoding='utf-8') as fd:
            fd.write('\n'.join(lines) + '\n')
    return 1 if missed else 0


if __name__ == '__main__':
    sys.exit(main())
