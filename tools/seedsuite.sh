#!/bin/sh
# Run the repository's own suite against each kept seeded patch (scratch worktree, removed afterwards).
for pid in "$@"; do
  work=/tmp/ss_$(echo $pid | tr -d "/")
  git -C /repo worktree remove --force "$work" 2>/dev/null
  git -C /repo worktree add -q --detach "$work" HEAD || continue
  (cd "$work" && git apply /verif/seeded/$pid/patch.diff) || { echo "$pid PATCH DOES NOT APPLY" > /verif/seeded/$pid/suite.log; git -C /repo worktree remove --force "$work"; continue; }
  /verif/tools/baseline.sh "$work/baseline_out" "$work" > /verif/seeded/$pid/suite.log 2>&1
  tail -3 /verif/seeded/$pid/suite.log
  git -C /repo worktree remove --force "$work"
done
