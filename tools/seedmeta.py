"""Write seeded/<ID>/meta.json from the confirmation logs produced by tools/seedcheck.sh / seedsuite.sh."""
import json
import os
import re
import sys

HERE = os.path.dirname(os.path.dirname(os.path.abspath(__file__)))
NEEDS = json.load(open(os.path.join(HERE, 'seeded', 'needs.json'), encoding='utf-8')) if os.path.exists(os.path.join(HERE, 'seeded', 'needs.json')) else {}


FIRST = json.load(open(os.path.join(HERE, 'seeded', 'first_run.json'), encoding='utf-8')) if os.path.exists(os.path.join(HERE, 'seeded', 'first_run.json')) else {}


def tail(path, n=3):
    if not os.path.exists(path):
        return None
    with open(path, encoding='utf-8', errors='replace') as fd:
        lines = [l.rstrip() for l in fd if l.strip()]
    return lines[-n:]


for pid in sys.argv[1:]:
    base = os.path.join(HERE, 'seeded', pid)
    checks = {}
    for tier in ('quick', 'thorough'):
        log = os.path.join(base, f'check_{tier}.log')
        if os.path.exists(log):
            text = open(log, encoding='utf-8', errors='replace').read()
            checks[tier] = {
                'verdict': (re.findall(r'^(HELD|VIOLATED|INCONCLUSIVE) property', text, re.M) or ['?'])[-1],
                'mechanisms': sorted(set([m.rstrip(':') for m in re.findall(r'mechanism=([\w:+.-]+)', text)])),
            }
    suite = tail(os.path.join(base, 'suite.log'), 2)
    patch = open(os.path.join(base, 'patch.diff'), encoding='utf-8').read()
    info = NEEDS.get(pid, {})
    prop = pid.split('-')[0]
    meta = {
        'property': prop,
        'round': int(pid.split('-')[1]) if '-' in pid else 1,
        'author': 'independent sub-agent given only the property text and a scratch worktree (nothing from /verif)',
        'files_changed': sorted(set(re.findall(r'^\+\+\+ b/(\S+)', patch, re.M))),
        'breaks': info.get('breaks'),
        'needs_to_manifest': info.get('needs'),
        'confirmed_by_lead': {
            'demo_on_clean_tree': (tail(os.path.join(base, 'demo_clean.log'), 1) or ['?'])[0][:200],
            'demo_with_change': (tail(os.path.join(base, 'demo_seeded.log'), 1) or ['?'])[0][:200],
            'existing_suite_with_change': suite,
            'commands': [f'tools/seedcheck.sh {prop} <agent worktree> quick', f'tools/seedsuite.sh {pid}'],
        },
        'check_result': checks,
        'caught': any(c['verdict'] == 'VIOLATED' for c in checks.values()),
        'caught_at_first_run': pid not in FIRST.get('missed_at_first_run', []),
    }
    with open(os.path.join(base, 'meta.json'), 'w', encoding='utf-8') as fd:
        json.dump(meta, fd, indent=1)
    print(pid, 'caught' if meta['caught'] else 'MISSED', checks)
