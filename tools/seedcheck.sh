#!/bin/sh
# Confirm an independently seeded break and run the property's check against it.
# usage: seedcheck.sh <PID> <agent worktree with SEEDED/> [tier]
pid=$1; src=$2; tier=${3:-quick}
dest=/verif/seeded/$pid${SEED_SUFFIX:-}
mkdir -p "$dest"
cp "$src/SEEDED/patch.diff" "$src/SEEDED/demo.py" "$dest/" || exit 2
[ -f "$src/SEEDED/notes.md" ] && cp "$src/SEEDED/notes.md" "$dest/notes.md"
work=/tmp/sv_$pid${SEED_SUFFIX:-}
git -C /repo worktree remove --force "$work" 2>/dev/null
git -C /repo worktree add -q --detach "$work" HEAD || exit 2
cd "$work" || exit 2
mkdir -p SEEDED && cp "$dest/demo.py" SEEDED/demo.py
echo "--- demo on clean tree"; PYTHONPATH="$work" timeout 600 /venv/bin/python SEEDED/demo.py > "$dest/demo_clean.log" 2>&1; clean=$?; tail -2 "$dest/demo_clean.log"
git apply "$dest/patch.diff" || { echo "PATCH DOES NOT APPLY"; exit 2; }
echo "--- demo with the change"; PYTHONPATH="$work" timeout 600 /venv/bin/python SEEDED/demo.py > "$dest/demo_seeded.log" 2>&1; seeded=$?; tail -2 "$dest/demo_seeded.log"
echo "demo: clean rc=$clean seeded rc=$seeded"
echo "--- check $pid ($tier) against the change"
cd /verif && VERIF_REPO="$work" VERIF_JOBS=8 ./check "$pid" --tier "$tier" --evidence-dir "$work/verif_out" > "$dest/check_$tier.log" 2>&1; rc=$?
grep -E "^(VIOLATION|  mechanism|HELD|VIOLATED|INCONCLUSIVE)" "$dest/check_$tier.log" | cut -c1-300 | head -8
echo "check rc=$rc"
if [ "$4" = "suite" ]; then
  echo "--- full suite with the change"
  /verif/tools/baseline.sh "$work/baseline_out" "$work" | tee "$dest/suite.log" | tail -5
fi
git -C /repo worktree remove --force "$work"
