#!/bin/sh
# Run the repository's own suite (guard off - there are no source hooks) and compare with BASELINE.json stable_pass.
# usage: baseline.sh [outdir] [repo dir]
out=${1:-/tmp/verif-baseline}
repo=${2:-/repo}
mkdir -p "$out"
cd "$repo" && PYTHONPATH="$repo" /venv/bin/python -m pytest -ra -q -p no:cacheprovider --timeout=900 --continue-on-collection-errors --junitxml="$out/junit.xml" > "$out/pytest.log" 2>&1
/venv/bin/python - "$out/junit.xml" <<'PY'
import json, sys, xml.etree.ElementTree as ET
base = json.load(open('/root/.vp/BASELINE.json'))
stable = set(base['stable_pass'])
passed, failed = set(), set()
for case in ET.parse(sys.argv[1]).getroot().iter('testcase'):
    name = f"{case.get('classname')}::{case.get('name')}"
    bad = any(child.tag in ('failure', 'error') for child in case)
    skipped = any(child.tag == 'skipped' for child in case)
    (failed if bad else passed).add(name) if not skipped else None
missing = sorted(stable - passed)
print(f'stable_pass={len(stable)} passed_now={len(passed)} failed_now={len(failed)} stable_not_passing={len(missing)}')
for name in missing[:40]:
    print('  REGRESSION', name)
sys.exit(1 if missing else 0)
PY
