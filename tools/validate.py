"""Validate MANIFEST.json and every evidence file it names against the harness schemas (run with python3-vt)."""
import json
import os
import sys

import jsonschema

HERE = os.path.dirname(os.path.dirname(os.path.abspath(__file__)))
manifest = json.load(open(os.path.join(HERE, 'MANIFEST.json'), encoding='utf-8'))
jsonschema.validate(manifest, json.load(open('/root/.vp/MANIFEST.schema.json', encoding='utf-8')))
schema = json.load(open('/root/.vp/EVIDENCE.schema.json', encoding='utf-8'))
bad = 0
for check in manifest['checks']:
    path = check['evidence_file']
    try:
        evidence = json.load(open(path, encoding='utf-8'))
        jsonschema.validate(evidence, schema)
        cov = evidence['coverage']
        print(f"{check['property_id']} ok  tier={evidence['tier']:8s} evaluations={cov['evaluations']:>8} distinct={cov['distinct_nontrivial']:>7} "
              f"known={len(cov.get('known_findings_hit', {}))} verdict={cov.get('verdict')}")
    except Exception as err:  # pylint: disable=broad-except
        bad += 1
        print(f"{check['property_id']} INVALID {path}: {str(err)[:200]}")
print('not claimed:', [n['property_id'] for n in manifest.get('not_applicable', [])])
sys.exit(1 if bad else 0)
